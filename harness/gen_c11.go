package main

import (
	"sort"
	"time"

	"github.com/dlclark/regexp2/v2/vsim"
)

var preDeltas = []int64{0, 0, 1, 1, 2, 3, 5, 8, 13, 21, 34, 55, 100, 300, 1000}

// genC11Hammer: every client does the same kind of call on ONE shared Regexp, with inputs and replacement
// strings drawn from a tiny set, so that all contention falls on one mechanism at a time (the replacement
// cache with a size of 1-2 entries, the runner pool, one size class of the global buffer pools).
func genC11Hammer(seed uint64, r *rng) *Scenario {
	sc := &Scenario{Prop: "C11", Seed: seed, SchedSeed: mix64(seed, 11), OpStepCap: scriptOpCap, Mode: "hammer", PeriodNs: int64(time.Millisecond)}
	var s ReSpec
	var pp *pat
	for tries := 0; tries < 10; tries++ {
		s, pp = randSpec(r, false)
		if v := pristine(s, &Op{Kind: OpGroupInfo}, scriptOpCap); !(len(v.res) > 8 && v.res[:8] == "COMPILE:") {
			break
		}
	}
	s.Cache = []int{1, 2, 2, 3, 0}[r.n(5)]
	sc.Res = []ReSpec{s}
	kinds := [][]int{{OpReplace}, {OpReplace, OpReplaceAt}, {OpMatchString, OpMatchRunes}, {OpFindString, OpFindRunes, OpWalk2}, {OpFindAllString, OpFindAllRunes},
		{OpSplit, OpReplaceFunc}, {OpReplace, OpMatchString, OpFindAllString}, {OpCompatAllSubmatch, OpCompatAllIndex, OpCompatSubmatchIndex},
		{OpEngine}, {OpMarshalRoundTrip, OpEngine}, {OpMarshalRoundTrip, OpMatchString}, {OpCompatReader}, {OpCompatReader, OpCompatMatch, OpCompatAllIndex}}[r.n(13)]
	nin := 1 + r.n(3)
	ins := make([]InputSpec, nin)
	for i := range ins {
		ins[i] = genInput(r, pp, r.chance(1, 3))
	}
	// deep: every call grows its runner's backtracking stack far beyond the initial size (what a Regexp does
	// with its big runners - keeps them apart, drops them, sizes new ones after them - happens under
	// concurrency), long pre-emptions at statement granularity
	deep := r.chance(1, 8)
	if deep {
		sc.Mode = "hammer-deep"
		dp := []string{`(?:a|b)*c`, `(a|b|c)*d`, `(?:(a)|(b)|(c)|(ab)|(bc)|(ca)|(abc))*$`, `^(?:([a-z])([0-9]))*$`}[r.n(4)]
		s = ReSpec{Pat: dp}
		sc.Res = []ReSpec{s}
		pp = &pat{Pat: dp, Frags: []string{"a", "b", "ab", "c", "a1", "d"}}
		kinds = []int{OpFindString, OpMatchString, OpFindRunes, OpFindAllString}
		unit := []string{"ab", "a1", "abc", "ba"}[r.n(4)]
		for i := range ins {
			ins[i] = InputSpec{Unit: unit, Rep: 1200 + r.n(2500), Suf: []string{"c", "d", "", "!"}[r.n(4)]}
		}
	}
	nrep := 1 + r.n(5) // more strings than cache entries (1-3) in most runs: evictions while others look up
	off := r.n(len(repls))
	if r.chance(1, 3) {
		off = replSpecial[r.n(len(replSpecial))] // one shared parse of a string with $` $' $_ $+, different inputs at once
	}
	ncl := 3 + r.n(2)
	est := int64(0)
	// long-vs-many: one client is inside a single long call (a long, mostly multi-byte input with many matches)
	// while the others complete a dozen short ASCII calls each on the same Regexp: whatever a Regexp "learns"
	// from recent calls changes under the long call's feet
	longVsMany := r.chance(1, 5)
	for c := 0; c < ncl; c++ {
		cl := Client{Cost: int64(100 + r.n(400))}
		nops := 1 + r.n(4)
		if kinds[0] == OpReplace && r.chance(1, 2) {
			nops = 3 + r.n(6) // a longer burst of Replace calls: the cache cycles through hit, miss and eviction
		}
		if longVsMany && c > 0 {
			nops = 8 + r.n(7)
		} else if longVsMany {
			nops = 1
		}
		for i := nops; i > 0; i-- {
			op := Op{Kind: kinds[r.n(len(kinds))], Re: 0, In: ins[r.n(nin)], In2: ins[r.n(nin)], N: []int{-1, -1, 1, 2}[r.n(4)], Repl: repls[(off+r.n(nrep))%len(repls)]}
			if longVsMany && c == 0 {
				u := []string{"héllo wörld 12 ", "日本 ab ", "é1 "}[r.n(3)]
				if f := pp.Frags[r.n(len(pp.Frags))]; f != "" && r.chance(1, 2) {
					u = f + " é"
				}
				op.In = InputSpec{Unit: u, Rep: 40 + r.n(400)}
				op.Kind = []int{OpReplace, OpReplace, OpReplaceFunc, OpFindAllString, OpSplit, OpFindString}[r.n(6)]
				op.N = -1
			} else if longVsMany {
				op.In = lit([]string{"ab 12", "x", "hello world", "a-1 b-2", pp.Frags[r.n(len(pp.Frags))]}[r.n(5)])
			}
			if op.Kind == OpReplaceAt {
				op.StartAt = -1
			}
			if op.Kind == OpEngine {
				op.N, op.StartAt = r.n(1000), s.Opts // different keys registered at the same time
			}
			if op.Kind == OpMarshalRoundTrip {
				op.StartAt = r.n(6)
			}
			v := pristine(s, &op, scriptOpCap)
			if v.capped {
				continue
			}
			est += v.steps
			cl.Ops = append(cl.Ops, op)
		}
		sc.Clients = append(sc.Clients, cl)
	}
	if est < 100 {
		est = 100
	}
	cfg := vsim.Config{Policy: vsim.Adversarial, MaxSteps: 50*est + 5_000_000, PoolMode: vsim.PoolRandom, MissProb: uint32(r.n(200)), DropProb: uint32(r.n(100))}
	switch r.n(3) {
	case 0:
		cfg.Policy = vsim.Fair
		cfg.Quantum = 1 + r.i64(30)
	case 1:
		cfg.Quantum = 3000 + r.i64(10000)
		cfg.SwitchProb = uint32(200 + r.n(600))
		cfg.WakeRunProb = 700
	default:
		cfg.Quantum = 3000 + r.i64(10000)
		cfg.SwitchProb = uint32(r.n(100))
		cfg.WakeRunProb = 700
		for k := 1 + r.n(4); k > 0; k-- {
			cfg.Preempts = append(cfg.Preempts, vsim.Preempt{AfterSync: 1 + r.i64(int64(10*sc.nops())+4), Delta: preDeltas[r.n(len(preDeltas))]})
		}
		sort.SliceStable(cfg.Preempts, func(i, j int) bool { return cfg.Preempts[i].AfterSync < cfg.Preempts[j].AfterSync })
	}
	if deep {
		cfg.Policy, cfg.Quantum, cfg.SwitchProb, cfg.WakeRunProb = vsim.Adversarial, 200_000+r.i64(400_000), uint32(r.n(60)), 700
		cfg.Preempts = cfg.Preempts[:0]
		for k := 3 + r.n(6); k > 0; k-- {
			cfg.Preempts = append(cfg.Preempts, vsim.Preempt{AfterSync: 1 + r.i64(int64(12*sc.nops())+4), Delta: r.i64(40)})
		}
		sort.SliceStable(cfg.Preempts, func(i, j int) bool { return cfg.Preempts[i].AfterSync < cfg.Preempts[j].AfterSync })
	}
	if r.chance(1, 2) {
		cfg.ScribbleProb = uint32(100 + r.n(924))
	}
	cfg.Alphabet = alphabetOf(sc)
	sc.Cfg = cfg
	nameOps(sc)
	return sc
}

// genC11 builds a concurrent workload: 2-4 clients, 1-4 calls each, on shared Regexps
// and on Regexps that share only the process-wide pools (DESIGN §3 C11).
func genC11(seed uint64, tier string) *Scenario {
	r := newRng(seed)
	setReplHot(r)
	if r.chance(1, 6) {
		return genC11Hammer(seed, r)
	}
	sc := &Scenario{Prop: "C11", Seed: seed, SchedSeed: mix64(seed, 11), OpStepCap: scriptOpCap}
	p := int64(time.Millisecond)
	sc.PeriodNs = p
	ncl := 2 + r.n(3)
	maxOps := 4
	if tier == "thorough" && r.chance(1, 3) {
		ncl = 2 + r.n(5) // up to 6 clients
		maxOps = 7
	}
	costs := make([]int64, ncl)
	minCost, maxCost := int64(1<<40), int64(0)
	for c := range costs {
		costs[c] = int64(100 + r.n(400))
		if r.chance(1, 4) {
			costs[c] *= int64(2 + r.n(8)) // a slow caller
		}
		if costs[c] < minCost {
			minCost = costs[c]
		}
		if costs[c] > maxCost {
			maxCost = costs[c]
		}
	}
	// shared Regexps
	nshared := 1 + r.n(3)
	var pats []*pat
	for tries := 0; len(sc.Res) < nshared && tries < 20; tries++ {
		s, pp := randSpec(r, true)
		if v := pristine(s, &Op{Kind: OpGroupInfo}, scriptOpCap); len(v.res) > 8 && v.res[:8] == "COMPILE:" {
			continue
		}
		if r.chance(1, 6) {
			s.TimeoutNs = 20*p + r.i64(200*p) // quick calls under a generous deadline: starts/extends the shared clock
		}
		sc.Res = append(sc.Res, s)
		pats = append(pats, pp)
	}
	if len(sc.Res) == 0 {
		return sc
	}
	nshared = len(sc.Res)
	// shared Regexps with (different) deadlines that serve catastrophic and quick calls: concurrent deadlines
	// start, extend and outlive the shared clock
	var heavyRes []int
	var heavyFams []catFam
	if r.chance(1, 4) {
		longDeadlines := r.chance(1, 2)
		if longDeadlines {
			// slow callers: a second of virtual time (the clock's shutdown slop) becomes affordable, so one
			// deadline can lie beyond the point where the clock would stop if only the other one counted
			// (the clock period is scaled with the step cost, as everywhere: a clock tick must stay cheap
			// relative to the period, else the clock task itself saturates the virtual CPU)
			p = int64(5 * time.Millisecond)
			sc.PeriodNs = p
			minCost, maxCost = int64(1<<40), int64(0)
			for c := range costs {
				costs[c] = p/500 + r.i64(p/200-p/500)
				if costs[c] < minCost {
					minCost = costs[c]
				}
				if costs[c] > maxCost {
					maxCost = costs[c]
				}
			}
		}
		maxD := scriptOpCap*minCost/4 - 3*p
		if maxD > 8*p {
			d := 2*p + r.i64(min64(maxD/4-2*p, 14*p)+1)
			for k := 0; k < 1+r.n(2); k++ {
				f := catastrophic[r.n(len(catastrophic))]
				sc.Res = append(sc.Res, ReSpec{Pat: f.Pat, Opts: f.Opts, TimeoutNs: d})
				heavyRes = append(heavyRes, len(sc.Res)-1)
				heavyFams = append(heavyFams, f)
				if longDeadlines {
					d += int64(time.Second) + r.i64(int64(300*time.Millisecond))
				} else {
					d = d*int64(2+r.n(3)) + r.i64(p) // the next one has a clearly longer deadline
				}
				if d > maxD {
					break
				}
			}
		}
	}
	timedFirst := len(heavyRes) > 0 && r.chance(1, 2)
	estSteps := int64(0)
	for c := 0; c < ncl; c++ {
		cl := Client{Cost: costs[c]}
		nops := 1 + r.n(maxOps)
		// some clients get a Regexp of their own (it shares only the global pools with the others)
		own := -1
		var ownPat *pat
		if r.chance(1, 3) {
			s, pp := randSpec(r, true)
			if v := pristine(s, &Op{Kind: OpGroupInfo}, scriptOpCap); !(len(v.res) > 8 && v.res[:8] == "COMPILE:") {
				s.Private = c + 1
				sc.Res = append(sc.Res, s)
				own, ownPat = len(sc.Res)-1, pp
			}
		}
		for i := 0; i < nops; i++ {
			var op Op
			x := r.n(20)
			if timedFirst && i == 0 {
				x = 0 // every client starts with a timed call: the clock is started by several callers at once
			}
			heavyRe := -1
			var heavyFam catFam
			if len(heavyRes) > 0 {
				k := r.n(len(heavyRes))
				heavyRe, heavyFam = heavyRes[k], heavyFams[k]
			}
			switch {
			case heavyRe >= 0 && x < 4:
				if r.chance(2, 3) {
					op = Op{Kind: heavyKinds[r.n(len(heavyKinds))], Re: heavyRe, In: heavyFam.In, Heavy: true, N: -1, Repl: "<$0>"}
					if v := pristine(sc.Res[heavyRe], &op, scriptOpCap); !v.capped {
						continue
					}
				} else {
					op = Op{Kind: findKinds[r.n(len(findKinds))], Re: heavyRe, In: InputSpec{Unit: heavyFam.In.Unit, Rep: 1 + r.n(4)}, N: -1, Repl: pickRepl(r), In2: lit("a")}
					if heavyFam.Probe != "" && r.chance(2, 3) {
						op.In = lit(heavyFam.Probe)
					}
				}
			case own >= 0 && x < 9:
				op = genOp(r, own, ownPat, true)
				op.TimeoutNs = 0
			case x == 19:
				op = Op{Kind: OpPoolGC}
			case x == 18:
				re := r.n(nshared)
				op = Op{Kind: OpEngine, Re: re, In: genInput(r, pats[re], false), N: r.n(1000), StartAt: sc.Res[re].Opts}
			default:
				re := r.n(nshared)
				op = genOp(r, re, pats[re], true)
				op.TimeoutNs = 0 // MatchTimeout of a shared Regexp is fixed before it is shared
				if op.Kind == OpReplace && r.chance(1, 2) {
					// everybody replaces with the same few strings: hits, misses and evictions of the shared cache
					op.Repl = repls[r.n(5)]
				}
			}
			if !isSilentOp(op.Kind) && !op.Heavy {
				v := pristine(sc.Res[op.Re], &op, scriptOpCap)
				if v.capped {
					continue
				}
				estSteps += v.steps
			} else if op.Heavy {
				estSteps += (sc.Res[op.Re].TimeoutNs + 3*p) / costs[c]
			}
			cl.Ops = append(cl.Ops, op)
		}
		sc.Clients = append(sc.Clients, cl)
	}
	if estSteps < 100 {
		estSteps = 100
	}
	// schedule and fault space
	cfg := vsim.Config{Policy: vsim.Adversarial, MaxSteps: 50*estSteps + 5_000_000, PoolMode: vsim.PoolRandom}
	switch m := r.n(10); {
	case m < 7:
		sc.Mode = "adversarial"
		cfg.Quantum = 3000 + r.i64(20000)
		cfg.SwitchProb = uint32([]int{0, 30, 100, 300, 600}[r.n(5)])
		cfg.WakeRunProb = uint32(300 + r.n(700))
		npre := r.n(5)
		nops := sc.nops()
		for k := 0; k < npre; k++ {
			if r.chance(2, 3) {
				cfg.Preempts = append(cfg.Preempts, vsim.Preempt{AfterSync: 1 + r.i64(int64(14*nops)+4), Delta: preDeltas[r.n(len(preDeltas))]})
			} else {
				cfg.Preempts = append(cfg.Preempts, vsim.Preempt{AfterSync: -1, Delta: r.i64(estSteps + 1)})
			}
		}
		sort.SliceStable(cfg.Preempts, func(i, j int) bool { return cfg.Preempts[i].AfterSync < cfg.Preempts[j].AfterSync })
		if r.chance(1, 3) {
			cfg.SyncStallProb = 5 + uint32(r.n(40))
			cfg.SyncStallMax = 50_000 + r.i64(2_000_000)
		}
	case m < 9:
		sc.Mode = "fine-grained"
		cfg.Policy = vsim.Fair
		cfg.Quantum = 1 + r.i64(40) // switch every few statements
	default:
		sc.Mode = "fair"
		cfg.Policy = vsim.Fair
		cfg.Quantum = 50 + r.i64(500)
	}
	cfg.MissProb = uint32(r.n(300))
	cfg.DropProb = uint32(r.n(150))
	if r.chance(3, 4) {
		cfg.ScribbleProb = uint32(100 + r.n(924))
	}
	if r.chance(1, 4) {
		cfg.PoolMode = vsim.PoolLIFO
	}
	cfg.Jitter = p / 4 * int64(r.n(2))
	cfg.Alphabet = alphabetOf(sc)
	sc.Cfg = cfg
	viaUnmarshal(r, sc, 1, 6)
	nameOps(sc)
	return sc
}
