package main

import (
	"encoding/hex"
	"encoding/json"
	"os"
	"strings"
	"unicode/utf8"

	"github.com/dlclark/regexp2/v2/vsim"
)

// A Scenario is a run file: execution is a pure function of it and of the code
// under test.  Generation derives every field from one seed; minimisation edits
// the fields.
type Scenario struct {
	Prop      string      `json:"property"`
	Seed      uint64      `json:"seed"`       // the run seed everything was derived from
	SchedSeed uint64      `json:"sched_seed"` // PRNG of the world (scheduler, pools, faults)
	Mode      string      `json:"mode"`       // sub-configuration, e.g. fair / adversarial / faultfree
	PeriodNs  int64       `json:"period_ns"`  // clock period set before the run (0: leave default)
	Cfg       vsim.Config `json:"cfg"`
	Res       []ReSpec    `json:"regexps"`
	Clients   []Client    `json:"clients"`
	OpStepCap int64       `json:"op_step_cap"` // pristine-world cap per operation
	// C13
	Limits           []int      `json:"limits,omitempty"`
	Exhaust          bool       `json:"exhaustive,omitempty"`
	Expect           *Violation `json:"expect,omitempty"` // replay: the violation this file reproduces
	Note             string     `json:"note,omitempty"`
	DefaultTimeoutNs int64      `json:"default_timeout_ns,omitempty"` // regexp2.DefaultMatchTimeout is set to this before the Regexps are compiled (0: left at "forever")
	NoDrain          bool       `json:"no_drain,omitempty"`           // stop when the last client is done (the clock legitimately outlives the run)
}

type ReSpec struct {
	Pat       string `json:"pat"`
	Opts      int    `json:"opts"`
	HasLimit  bool   `json:"has_limit,omitempty"`
	Limit     int    `json:"limit,omitempty"`
	Cache     int    `json:"cache,omitempty"`       // MaxCachedReplacerDataEntries: 0 = default, -9 = disabled(0)
	CacheB    int    `json:"cache_bytes,omitempty"` // MaxCachedReplacerDataBytes: 0 = default
	RuneBuf   int    `json:"rune_buf,omitempty"`    // MaxCachedRuneBufferLength: 0 = default, -9 = 0
	ReplBuf   int    `json:"repl_buf,omitempty"`    // MaxCachedReplaceBufferLength: 0 = default, -9 = 0
	NoBitmap  bool   `json:"no_bitmap,omitempty"`
	KeepOrder bool   `json:"maintain_capture_order,omitempty"`
	CodeGen   bool   `json:"is_code_gen,omitempty"` // OptionIsCodeGen: the more expensive compile-time analysis (other candidate-search modes)
	TimeoutNs int64  `json:"timeout_ns,omitempty"`  // MatchTimeout set before the Regexp is shared (0: none)
	Private   int    `json:"private,omitempty"`     // 1+client index if only that client uses it
	Via       int    `json:"via,omitempty"`         // 1: the Regexp the clients use is obtained by MarshalText + UnmarshalText into a zero value
}

// InputSpec describes a text as Pre + Unit×Rep + Suf (so that long inputs stay short in a run file and shrink well).
type InputSpec struct {
	Pre  string
	Unit string
	Rep  int
	Suf  string
}

type inputSpecJSON struct {
	Pre  Str `json:"pre,omitempty"`
	Unit Str `json:"unit,omitempty"`
	Rep  int `json:"rep,omitempty"`
	Suf  Str `json:"suf,omitempty"`
}

func (i InputSpec) MarshalJSON() ([]byte, error) {
	return json.Marshal(inputSpecJSON{Str(i.Pre), Str(i.Unit), i.Rep, Str(i.Suf)})
}

func (i *InputSpec) UnmarshalJSON(b []byte) error {
	var j inputSpecJSON
	if err := json.Unmarshal(b, &j); err != nil {
		return err
	}
	*i = InputSpec{string(j.Pre), string(j.Unit), j.Rep, string(j.Suf)}
	return nil
}

// Str is a string that survives JSON exactly: inputs may contain invalid UTF-8, which
// encoding/json would silently replace by U+FFFD and make a replay differ from the run.
type Str string

func (s Str) MarshalJSON() ([]byte, error) {
	if utf8.ValidString(string(s)) {
		return json.Marshal(string(s))
	}
	return json.Marshal(map[string]string{"hex": hex.EncodeToString([]byte(s))})
}

func (s *Str) UnmarshalJSON(b []byte) error {
	if len(b) > 0 && b[0] == '{' {
		var m map[string]string
		if err := json.Unmarshal(b, &m); err != nil {
			return err
		}
		raw, err := hex.DecodeString(m["hex"])
		*s = Str(raw)
		return err
	}
	var t string
	if err := json.Unmarshal(b, &t); err != nil {
		return err
	}
	*s = Str(t)
	return nil
}

func (i InputSpec) Text() string {
	if i.Rep <= 0 {
		return i.Pre + i.Suf
	}
	return i.Pre + strings.Repeat(i.Unit, i.Rep) + i.Suf
}

func lit(s string) InputSpec { return InputSpec{Pre: s} }

// Operation kinds.
const (
	OpMatchString = iota
	OpMatchRunes
	OpFindString
	OpFindRunes
	OpFindStringAt
	OpFindRunesAt
	OpFindAllString
	OpFindAllRunes
	OpReplace
	OpReplaceFunc
	OpSplit
	OpWalk2 // two FindNextMatch walks over two inputs, interleaved
	OpCompatMatch
	OpCompatSubmatchIndex
	OpCompatAllSubmatch
	OpCompatAllIndex
	OpCompatReader
	OpGroupInfo
	OpIdle
	OpStopClock
	OpBarrier
	OpPoolGC
	OpEngine // RegisterEngine + MustCompile of a registry-hit pattern
	OpReplaceAt
	OpMarshalRoundTrip     // MarshalText, UnmarshalText into a new Regexp value, match with it
	OpReplaceFuncReentrant // ReplaceFunc whose evaluator calls the same Regexp (find, replace) for every match
	OpWalkMixed            // one FindNextMatch walk with other calls on the same Regexp between its steps
	OpReplaceFuncPanic     // ReplaceFunc whose evaluator panics at the k-th match (the caller recovers)
	nOpKinds
)

var opNames = [...]string{"MatchString", "MatchRunes", "FindStringMatch+walk", "FindRunesMatch+walk", "FindStringMatchStartingAt+walk",
	"FindRunesMatchStartingAt+walk", "FindAllStringIndex", "FindAllRunesIndex", "Replace", "ReplaceFunc", "Split", "Walk2",
	"compat.MatchString", "compat.FindStringSubmatchIndex", "compat.FindAllStringSubmatch", "compat.FindAllIndex", "compat.FindReaderSubmatchIndex",
	"GroupInfo", "Idle", "StopTimeoutClock", "Barrier", "PoolGC", "RegisterEngine+MustCompile", "Replace(startAt)", "MarshalText+UnmarshalText+MatchString", "ReplaceFunc(re-entrant evaluator)", "FindNextMatch walk with other calls in between", "ReplaceFunc(evaluator panics)"}

type Op struct {
	Kind      int       `json:"kind"`
	Name      string    `json:"name,omitempty"` // informational
	Re        int       `json:"re"`
	In        InputSpec `json:"in"`
	In2       InputSpec `json:"in2,omitempty"`
	Repl      string    `json:"repl,omitempty"`
	N         int       `json:"n,omitempty"`
	StartAt   int       `json:"start_at,omitempty"`
	TimeoutNs int64     `json:"timeout_ns,omitempty"` // set on the (private) Regexp before the call; 0: leave
	IdleNs    int64     `json:"idle_ns,omitempty"`
	Heavy     bool      `json:"heavy,omitempty"` // generated as catastrophic (pristine run exceeds the cap)
	Cost      int64     `json:"cost,omitempty"`  // change the client's step cost before the call
	Keep      bool      `json:"keep,omitempty"`  // retain returned matches and re-serialise them at the end
}

type Client struct {
	Cost int64 `json:"cost"`
	Ops  []Op  `json:"ops"`
}

type Violation struct {
	Class  string `json:"class"`
	Client int    `json:"client"`
	Op     int    `json:"op"`
	Detail string `json:"detail"`
	Frames string `json:"frames,omitempty"` // race: top frames of the report
}

func loadScenario(path string) (*Scenario, error) {
	b, err := os.ReadFile(path)
	if err != nil {
		return nil, err
	}
	var sc Scenario
	if err := json.Unmarshal(b, &sc); err != nil {
		return nil, err
	}
	return &sc, nil
}

func (sc *Scenario) save(path string) error {
	b, err := json.MarshalIndent(sc, "", " ")
	if err != nil {
		return err
	}
	return os.WriteFile(path, b, 0644)
}

func (sc *Scenario) nops() int {
	n := 0
	for _, c := range sc.Clients {
		n += len(c.Ops)
	}
	return n
}

// splitmix64 PRNG used by generators (the world has its own instance).
type rng struct{ s uint64 }

func newRng(seed uint64) *rng { return &rng{seed*0x9E3779B97F4A7C15 + 0x51ed27} }

func (r *rng) u64() uint64 {
	r.s += 0x9E3779B97F4A7C15
	z := r.s
	z = (z ^ (z >> 30)) * 0xBF58476D1CE4E5B9
	z = (z ^ (z >> 27)) * 0x94D049BB133111EB
	return z ^ (z >> 31)
}
func (r *rng) n(n int) int {
	if n <= 0 {
		return 0
	}
	return int(r.u64() % uint64(n))
}
func (r *rng) i64(n int64) int64 {
	if n <= 0 {
		return 0
	}
	return int64(r.u64() % uint64(n))
}
func (r *rng) chance(num, den int) bool { return r.n(den) < num }

func mix64(a, b uint64) uint64 {
	z := a*0x9E3779B97F4A7C15 ^ (b+0x7f4a7c15)*0xBF58476D1CE4E5B9
	z = (z ^ (z >> 30)) * 0xBF58476D1CE4E5B9
	z = (z ^ (z >> 27)) * 0x94D049BB133111EB
	return z ^ (z >> 31)
}
