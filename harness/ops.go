package main

import (
	"errors"
	"fmt"
	"io"
	"os"
	"strconv"
	"strings"
	"time"

	regexp2 "github.com/dlclark/regexp2/v2"
	"github.com/dlclark/regexp2/v2/vsim"
)

func compileSpec(s ReSpec) (re *regexp2.Regexp, err error) {
	defer func() {
		if r := recover(); r != nil {
			if vsim.IsAbort(r) {
				panic(r)
			}
			err = fmt.Errorf("compile panic: %v", r)
		}
	}()
	opts := []regexp2.CompileOption{regexp2.RegexOptions(s.Opts)}
	if s.HasLimit {
		opts = append(opts, regexp2.OptionMaxBacktrackingStackSize(s.Limit))
	}
	conv := func(v int) int {
		if v == -9 {
			return 0
		}
		return v
	}
	if s.Cache != 0 {
		opts = append(opts, regexp2.OptionMaxCachedReplacerDataEntries(conv(s.Cache)))
	}
	if s.CacheB != 0 {
		opts = append(opts, regexp2.OptionMaxCachedReplacerDataBytes(conv(s.CacheB)))
	}
	if s.RuneBuf != 0 {
		opts = append(opts, regexp2.OptionMaxCachedRuneBufferLength(conv(s.RuneBuf)))
	}
	if s.ReplBuf != 0 {
		opts = append(opts, regexp2.OptionMaxCachedReplaceBufferLength(conv(s.ReplBuf)))
	}
	if s.NoBitmap {
		opts = append(opts, regexp2.OptionDisableCharClassASCIIBitmap())
	}
	if s.KeepOrder {
		opts = append(opts, regexp2.OptionMaintainCaptureOrder())
	}
	if s.CodeGen {
		opts = append(opts, regexp2.OptionIsCodeGen())
	}
	re, err = regexp2.Compile(s.Pat, opts...)
	if err == nil && s.Via == 1 {
		// what a configuration loader does: the Regexp value in use was filled in by UnmarshalText
		var b []byte
		if b, err = re.MarshalText(); err == nil {
			re = new(regexp2.Regexp)
			err = re.UnmarshalText(b)
		}
	}
	if err == nil && s.TimeoutNs > 0 {
		re.MatchTimeout = time.Duration(s.TimeoutNs)
	}
	return re, err
}

// viaUnmarshal marks some plain specs (no options, no knobs: UnmarshalText compiles with the default
// options) as obtained through UnmarshalText.
func viaUnmarshal(r *rng, sc *Scenario, num, den int) {
	for i := range sc.Res {
		s := &sc.Res[i]
		if s.Opts == 0 && !s.HasLimit && s.Cache == 0 && s.CacheB == 0 && s.RuneBuf == 0 && s.ReplBuf == 0 && !s.NoBitmap && !s.KeepOrder && !s.CodeGen && r.chance(num, den) {
			s.Via = 1
		}
	}
}

// Rune inputs: a caller's []rune is read-only for the library and may be handed to several calls at once.
// The run's rune inputs are therefore converted once, before the clients start, and every call on the same
// text gets the same backing array; after the run they must still spell the text (run.go).
type sharedRune struct {
	text  string
	runes []rune
	orig  []rune // private copy to compare with after the run
}

var sharedRunes []sharedRune

func runesOf(s string) []rune {
	for i := range sharedRunes {
		if sharedRunes[i].text == s {
			return sharedRunes[i].runes
		}
	}
	return []rune(s)
}

func shareRunes(sc *Scenario) {
	sharedRunes = sharedRunes[:0]
	seen := map[string]bool{}
	add := func(s string) {
		if !seen[s] && len(s) <= 1<<16 {
			seen[s] = true
			sharedRunes = append(sharedRunes, sharedRune{s, []rune(s), []rune(s)})
		}
	}
	for _, cl := range sc.Clients {
		for i := range cl.Ops {
			switch cl.Ops[i].Kind {
			case OpMatchRunes, OpFindRunes, OpFindRunesAt, OpFindAllRunes, OpWalkMixed, OpWalk2:
				add(cl.Ops[i].In.Text())
				add(cl.Ops[i].In2.Text())
			}
		}
	}
}

// patterns a Regexp value held before UnmarshalText replaces it
var usedPats = []string{`(\d+)-(\d+)`, `(a)|b`, `\w+`, `(?<n>x)+y`, `^(?:ab)*$`}

func errClass(err error) string {
	if err == nil {
		return ""
	}
	if errors.Is(err, regexp2.ErrBacktrackingStackLimit) {
		return "LIMIT"
	}
	if strings.HasPrefix(err.Error(), "match timeout") {
		return "TIMEOUT"
	}
	return "ERR:" + err.Error()
}

func isAbortClass(s string) bool { return s == "TIMEOUT" || s == "LIMIT" }

func canonOne(sb *strings.Builder, m *regexp2.Match) {
	for _, g := range m.Groups() {
		fmt.Fprintf(sb, "%s:", g.Name)
		for i := range g.Captures {
			c := &g.Captures[i]
			bi, bl := c.ByteRange()
			fmt.Fprintf(sb, "(%d,%d,%d,%d,%q)", c.RuneIndex, c.RuneLength, bi, bl, c.String())
		}
		// the group's own (last) capture
		fmt.Fprintf(sb, "=%d,%d;", g.RuneIndex, g.RuneLength)
		// the same group through the lookups (by name; by number when the name is one)
		if bn := m.GroupByName(g.Name); bn == nil {
			sb.WriteString("!noname;")
		} else if bn.RuneIndex != g.RuneIndex || bn.RuneLength != g.RuneLength || len(bn.Captures) != len(g.Captures) {
			fmt.Fprintf(sb, "!byname=%d,%d,%d;", bn.RuneIndex, bn.RuneLength, len(bn.Captures))
		}
		if n, err := strconv.Atoi(g.Name); err == nil {
			if bn := m.GroupByNumber(n); bn == nil {
				sb.WriteString("!nonum;")
			} else if bn.RuneIndex != g.RuneIndex || bn.RuneLength != g.RuneLength || bn.Name != g.Name {
				fmt.Fprintf(sb, "!bynum=%d,%d,%s;", bn.RuneIndex, bn.RuneLength, bn.Name)
			}
		}
	}
	fmt.Fprintf(sb, "#%d", m.GroupCount())
}

const maxWalk = 3000

// opCtx collects what an operation leaves behind for the oracles: values it returned (re-read at the end
// of the script) and the start time of its last public call (a walk is a sequence of calls, each of which
// gets its own deadline).
type opCtx struct {
	kept      []kept
	lastStart int64
	calls     int
}

func (c *opCtx) callStarts() {
	if c != nil {
		c.lastStart = vsim.VNow()
		c.calls++
	}
}

type kept struct {
	m     *regexp2.Match
	e     error  // a returned error: its text must stay the same, too
	runes []rune // a rune slice handed out by Capture.Runes(), kept WITHOUT its match
	canon string
}

// canonWalk serialises a match and the whole FindNextMatch chain behind it.
func canonWalk(re *regexp2.Regexp, m *regexp2.Match, err error, ctx *opCtx, keepMatches bool, idleNs int64) string {
	var keep *[]kept
	if ctx != nil {
		keep = &ctx.kept
	}
	var sb strings.Builder
	walk := 0
	for {
		if err != nil {
			noteErr(keep, err)
			sb.WriteString(errClass(err))
			return sb.String()
		}
		if m == nil {
			sb.WriteString("|nil")
			return sb.String()
		}
		a := sb.Len()
		canonOne(&sb, m)
		if keep != nil && keepMatches && len(*keep) < 6 {
			*keep = append(*keep, kept{m: m, canon: sb.String()[a:]})
			if g := m.GroupByNumber(0); g != nil && len(*keep) < 6 {
				rs := g.Runes()
				*keep = append(*keep, kept{runes: rs, canon: string(rs)})
			}
		}
		sb.WriteString("|")
		walk++
		if walk > maxWalk {
			sb.WriteString("RUNAWAY")
			return sb.String()
		}
		if idleNs > 0 && walk%2 == 1 {
			vsim.Sleep(time.Duration(idleNs)) // the caller takes its time between two matches
		}
		ctx.callStarts()
		m, err = re.FindNextMatch(m)
	}
}

type strReader struct {
	r []rune
	i int
}

func (s *strReader) ReadRune() (rune, int, error) {
	if s.i >= len(s.r) {
		return 0, 0, io.EOF
	}
	c := s.r[s.i]
	s.i++
	return c, len(string(c)), nil
}

// execOp performs one public-API operation and returns its canonical result.
// noteErr retains an error a call returned, with its text at that moment.
func noteErr(keep *[]kept, err error) {
	if keep != nil && err != nil && len(*keep) < 12 {
		*keep = append(*keep, kept{e: err, canon: err.Error()})
	}
}

func execOp(re *regexp2.Regexp, op *Op, ctx *opCtx) (out string) {
	var keep *[]kept
	if ctx != nil {
		keep = &ctx.kept
	}
	ctx.callStarts()
	keepMatches := op.Keep
	orErr := func(val string, err error) string {
		noteErr(keep, err)
		if err == nil {
			return val
		}
		return errClass(err)
	}
	defer func() {
		if r := recover(); r != nil {
			if vsim.IsAbort(r) {
				panic(r)
			}
			if e, ok := r.(error); ok && isAbortClass(errClass(e)) && op.Kind >= OpCompatMatch && op.Kind <= OpCompatReader {
				out = errClass(e) // the adapter panics with the engine's error, by design
				return
			}
			msg := fmt.Sprint(r)
			if i := strings.IndexByte(msg, '\n'); i >= 0 {
				msg = msg[:i]
			}
			out = "PANIC:" + msg
		}
	}()
	in := op.In.Text()
	switch op.Kind {
	case OpMatchString:
		ok, err := re.MatchString(in)
		return orErr(fmt.Sprint(ok), err)
	case OpMatchRunes:
		ok, err := re.MatchRunes(runesOf(in))
		return orErr(fmt.Sprint(ok), err)
	case OpFindString:
		m, err := re.FindStringMatch(in)
		return canonWalk(re, m, err, ctx, keepMatches, op.IdleNs)
	case OpFindRunes:
		m, err := re.FindRunesMatch(runesOf(in))
		return canonWalk(re, m, err, ctx, keepMatches, op.IdleNs)
	case OpFindStringAt:
		m, err := re.FindStringMatchStartingAt(in, op.StartAt)
		return canonWalk(re, m, err, ctx, keepMatches, op.IdleNs)
	case OpFindRunesAt:
		r := runesOf(in)
		at := op.StartAt
		if at > len(r) {
			at = len(r)
		}
		m, err := re.FindRunesMatchStartingAt(r, at)
		return canonWalk(re, m, err, ctx, keepMatches, op.IdleNs)
	case OpFindAllString:
		r, err := re.FindAllStringIndex(in, op.N)
		return orErr(fmt.Sprint(r), err)
	case OpFindAllRunes:
		r, err := re.FindAllRunesIndex(runesOf(in), op.N)
		return orErr(fmt.Sprint(r), err)
	case OpReplace:
		r, err := re.Replace(in, op.Repl, -1, op.N)
		return orErr(fmt.Sprintf("%q", r), err)
	case OpReplaceAt:
		r, err := re.Replace(in, op.Repl, op.StartAt, op.N)
		return orErr(fmt.Sprintf("%q", r), err)
	case OpReplaceFunc:
		r, err := re.ReplaceFunc(in, func(m regexp2.Match) string {
			var sb strings.Builder
			sb.WriteString("<")
			canonOne(&sb, &m)
			sb.WriteString(">")
			return sb.String()
		}, -1, op.N)
		return orErr(fmt.Sprintf("%q", r), err)
	case OpReplaceFuncReentrant:
		// the evaluator uses the same Regexp while the outer call is in progress: the outer call's
		// interpreter state, buffers and match must not be what the inner calls get
		calls := 0
		var innerErr error // the first error of an inner call decides the result (a timeout under an adversarial schedule is legitimate)
		r, err := re.ReplaceFunc(in, func(m regexp2.Match) string {
			var sb strings.Builder
			sb.WriteString("<")
			canonOne(&sb, &m)
			if calls++; calls <= 6 && innerErr == nil {
				inner, e := re.FindStringMatch(m.String() + op.In2.Text())
				sb.WriteString("/")
				if e != nil {
					innerErr = e
					return ""
				} else if inner != nil {
					canonOne(&sb, inner)
				}
				rr, e := re.Replace(op.In2.Text()+m.String(), op.Repl, -1, 2)
				if e != nil {
					innerErr = e
					return ""
				}
				sb.WriteString("/")
				sb.WriteString(fmt.Sprintf("%q", rr))
				sb.WriteString("/")
				canonOne(&sb, &m) // the outer match again, after the inner calls
			}
			sb.WriteString(">")
			return sb.String()
		}, -1, op.N)
		if innerErr != nil {
			return errClass(innerErr)
		}
		return orErr(fmt.Sprintf("%q", r), err)
	case OpReplaceFuncPanic:
		// the caller's evaluator panics and the caller recovers: a call that failed in a way the library
		// cannot clean up after; whatever it held (interpreter state, buffers) must not poison later calls
		return func() (res string) {
			seen := 0
			defer func() {
				if x := recover(); x != nil {
					if vsim.IsAbort(x) {
						panic(x)
					}
					if s, ok := x.(string); ok && s == "verif: evaluator gives up" {
						res = fmt.Sprintf("EVALPANIC after %d", seen)
						return
					}
					panic(x)
				}
			}()
			r, err := re.ReplaceFunc(in, func(m regexp2.Match) string {
				if seen++; seen > op.StartAt {
					panic("verif: evaluator gives up")
				}
				return "<" + m.String() + ">"
			}, -1, -1)
			return orErr(fmt.Sprintf("%q", r), err)
		}()
	case OpSplit:
		r, err := re.Split(in, op.N)
		return orErr(fmt.Sprintf("%q", r), err)
	case OpWalkMixed:
		// what belongs to the walk (text, position, "previous match was empty") must live in the Match,
		// not where the calls in between can change it
		in2 := op.In2.Text()
		m, err := re.FindStringMatch(in)
		if op.N > 0 {
			m, err = re.FindRunesMatch(runesOf(in))
		}
		var sb strings.Builder
		for k := 0; k < maxWalk; k++ {
			if err != nil {
				sb.WriteString(errClass(err))
				break
			}
			if m == nil {
				sb.WriteString("|nil")
				break
			}
			canonOne(&sb, m)
			sb.WriteString("|")
			var ib strings.Builder
			if k < 8 {
				switch (k + op.StartAt) % 4 {
				case 0:
					var b bool
					b, err = re.MatchString(in2)
					ib.WriteString(fmt.Sprint(b))
				case 1:
					var o *regexp2.Match
					o, err = re.FindRunesMatch(runesOf(in2))
					if err == nil && o != nil {
						canonOne(&ib, o)
						if o, err = re.FindNextMatch(o); err == nil && o != nil {
							canonOne(&ib, o)
						}
					}
				case 2:
					var rr string
					rr, err = re.Replace(in2, op.Repl, -1, 1+k%2)
					ib.WriteString(fmt.Sprintf("%q", rr))
				default:
					if o, e := re.FindStringMatchStartingAt(in2, len(in2)/2); e == nil && o != nil {
						canonOne(&ib, o)
					} else if e != nil && errClass(e) == "TIMEOUT" {
						err = e
					} else if e != nil {
						ib.WriteString(errClass(e))
					}
				}
				if err != nil {
					// the first error of a call in between ends the walk, so that an aborted walk is a prefix of the full one
					sb.WriteString(errClass(err))
					break
				}
				sb.WriteString(ib.String())
				sb.WriteString("|")
			}
			ctx.callStarts()
			m, err = re.FindNextMatch(m)
		}
		return sb.String()
	case OpWalk2:
		// the first error of either chain ends the walk at once, so that an aborted walk is a prefix of the
		// full one and the call that failed is the last one started (its latency is what is judged)
		in2 := op.In2.Text()
		m1, e1 := re.FindStringMatch(in)
		if e1 != nil {
			return errClass(e1)
		}
		ctx.callStarts()
		m2, e2 := re.FindRunesMatch(runesOf(in2))
		if e2 != nil {
			return errClass(e2)
		}
		var sb strings.Builder
		for k := 0; k < maxWalk && (m1 != nil || m2 != nil); k++ {
			if m1 != nil {
				sb.WriteString("1:")
				canonOne(&sb, m1)
				sb.WriteString("|")
				ctx.callStarts()
				if m1, e1 = re.FindNextMatch(m1); e1 != nil {
					sb.WriteString(errClass(e1))
					break
				}
			}
			if m2 != nil {
				sb.WriteString("2:")
				canonOne(&sb, m2)
				sb.WriteString("|")
				ctx.callStarts()
				if m2, e2 = re.FindNextMatch(m2); e2 != nil {
					sb.WriteString(errClass(e2))
					break
				}
			}
		}
		return sb.String()
	case OpCompatMatch:
		c := adapterOf(re)
		return fmt.Sprintf("%v %v", c.MatchString(in), c.Match([]byte(in)))
	case OpCompatSubmatchIndex:
		c := adapterOf(re)
		return fmt.Sprintf("%v %q %q %v %v %q %v %q", c.FindStringSubmatchIndex(in), c.FindStringSubmatch(in), c.Find([]byte(in)),
			c.FindSubmatchIndex([]byte(in)), c.FindStringIndex(in), c.FindString(in), c.FindIndex([]byte(in)), c.FindSubmatch([]byte(in)))
	case OpCompatAllSubmatch:
		c := adapterOf(re)
		return fmt.Sprintf("%q %v %v %q %q", c.FindAllStringSubmatch(in, op.N), c.FindAllStringSubmatchIndex(in, op.N),
			c.FindAllSubmatchIndex([]byte(in), op.N), c.FindAll([]byte(in), op.N), c.FindAllSubmatch([]byte(in), op.N))
	case OpCompatAllIndex:
		c := adapterOf(re)
		return fmt.Sprintf("%v %q %v", c.FindAllIndex([]byte(in), op.N), c.FindAllString(in, op.N), c.FindAllStringIndex(in, op.N))
	case OpCompatReader:
		c := adapterOf(re)
		return fmt.Sprintf("%v %v %v", c.MatchReader(&strReader{r: []rune(in)}), c.FindReaderSubmatchIndex(&strReader{r: []rune(in)}), c.FindReaderIndex(&strReader{r: []rune(in)}))
	case OpGroupInfo:
		names := re.GetGroupNames()
		nums := re.GetGroupNumbers()
		var sb strings.Builder
		fmt.Fprintf(&sb, "%q %v", names, nums)
		for _, n := range nums {
			fmt.Fprintf(&sb, " %q", re.GroupNameFromNumber(n))
		}
		for _, n := range names {
			fmt.Fprintf(&sb, " %d", re.GroupNumberFromName(n))
		}
		return sb.String()
	case OpEngine:
		// a registered engine must be the one a later Compile of its pattern gets: the engine says "no
		// candidate", the interpreter would match the pattern (a literal) on itself
		key := fmt.Sprintf("verif-eng-%d", op.N)
		regexp2.RegisterEngine(key, regexp2.RuntimeEngineData{CapSize: 1, CapsList: []string{"0"},
			FindFirstChar: func(*regexp2.Runner) bool { return false },
			Execute:       func(*regexp2.Runner) error { return nil }})
		r2 := regexp2.MustCompile(re.String(), regexp2.RegexOptions(op.StartAt))
		ok, err := r2.MatchString(in)
		if err != nil {
			return orErr("", err)
		}
		r3 := regexp2.MustCompile(key)
		viaEngine, err := r3.MatchString("x " + key)
		return orErr(fmt.Sprint(ok, !viaEngine), err)
	case OpMarshalRoundTrip:
		b, err := re.MarshalText()
		if err != nil {
			return orErr("", err)
		}
		r2 := new(regexp2.Regexp)
		if ctx != nil && op.StartAt > 0 {
			// in a history (not in the pristine world): unmarshal into a Regexp value that has been used
			// with another pattern -- every call afterwards must be the new pattern's
			r2 = regexp2.MustCompile(usedPats[op.StartAt%len(usedPats)])
			const used = "12-34 ab xxy abab" // short: the cost of the history must stay small next to the call's own
			r2.MatchString(used)
			r2.FindStringMatch(used)
			r2.Replace(used, "<$0>", -1, -1)
		}
		if err := r2.UnmarshalText(b); err != nil {
			return "UNMARSHAL:" + err.Error()
		}
		ok, err := r2.MatchString(in)
		if err != nil {
			return orErr("", err)
		}
		ok2, _ := r2.MatchRunes([]rune(in))
		all, _ := r2.FindAllStringIndex(in, -1)
		m, err := r2.FindStringMatch(in)
		walk := canonWalk(r2, m, err, nil, false, 0)
		rep, err := r2.Replace(in, op.Repl, -1, -1)
		return orErr(fmt.Sprintf("%s %q %v %v %v %s %q %v", b, r2.String(), ok, ok2, all, walk, rep, r2.GetGroupNames()), err)
	case OpIdle:
		vsim.Sleep(time.Duration(op.IdleNs))
		return ""
	case OpStopClock:
		regexp2.StopTimeoutClock()
		return ""
	case OpPoolGC:
		vsim.PoolGC()
		return ""
	}
	// an operation kind without an implementation would compare "?" with "?" for ever: harness trouble, not a result
	fmt.Fprintf(os.Stderr, "TROUBLE: operation kind %d (%s) has no implementation in execOp\n", op.Kind, opNames[op.Kind])
	os.Exit(2)
	return "?"
}
