package main

import (
	"fmt"
	"sort"
	"strings"

	regexp2 "github.com/dlclark/regexp2/v2"
	"github.com/dlclark/regexp2/v2/vsim"
)

// ---- random patterns: deep nesting, counted loops, lookarounds, many alternations ----

type patGen struct {
	r      *rng
	groups int
	budget int
}

func (g *patGen) atom() string {
	switch g.r.n(12) {
	case 0, 1, 2, 3:
		return string(rune('a' + g.r.n(3)))
	case 4:
		return []string{"[ab]", "[^a]", "[a-c]", `\w`, `\d`, "[bc]"}[g.r.n(6)]
	case 5:
		return "."
	case 6:
		if g.groups > 0 && g.r.chance(1, 2) {
			return fmt.Sprintf(`\%d`, 1+g.r.n(g.groups))
		}
		return "b"
	case 7:
		return []string{"^", "$", `\b`, `\B`, ""}[g.r.n(5)]
	default:
		return string(rune('a' + g.r.n(3)))
	}
}

func (g *patGen) quant(s string) string {
	if s == "" || strings.HasSuffix(s, "^") || strings.HasSuffix(s, "$") || strings.HasSuffix(s, `\b`) || strings.HasSuffix(s, `\B`) {
		return s
	}
	q := []string{"", "", "", "?", "*", "+", "{2}", "{1,3}", "{0,2}", "{2,}", "*?", "+?", "??", "{1,4}?"}[g.r.n(14)]
	return s + q
}

func (g *patGen) node(depth int) string {
	g.budget--
	if depth <= 0 || g.budget <= 0 {
		return g.quant(g.atom())
	}
	switch g.r.n(10) {
	case 0, 1: // concatenation
		n := 2 + g.r.n(3)
		var sb strings.Builder
		for i := 0; i < n; i++ {
			sb.WriteString(g.node(depth - 1))
		}
		return sb.String()
	case 2, 3: // alternation, possibly wide
		n := 2 + g.r.n(5)
		parts := make([]string, n)
		for i := range parts {
			parts[i] = g.node(depth - 1)
		}
		return g.quant("(?:" + strings.Join(parts, "|") + ")")
	case 4, 5: // capturing group
		g.groups++
		return g.quant("(" + g.node(depth-1) + ")")
	case 6:
		return g.quant("(?:" + g.node(depth-1) + ")")
	case 7: // lookaround
		k := []string{"(?=", "(?!", "(?<=", "(?<!"}[g.r.n(4)]
		return k + g.node(depth-1) + ")"
	case 8:
		switch g.r.n(4) {
		case 0: // conditional on a group
			if g.groups > 0 {
				return fmt.Sprintf("(?(%d)%s|%s)", 1+g.r.n(g.groups), g.node(depth-1), g.node(depth-1))
			}
		case 1: // named group
			g.groups++
			return g.quant(fmt.Sprintf("(?<n%d>%s)", g.groups, g.node(depth-1)))
		}
		return g.quant("(?>" + g.node(depth-1) + ")")
	default:
		return g.quant(g.atom())
	}
}

func randPattern(r *rng) string {
	g := &patGen{r: r, budget: 6 + r.n(30)}
	return g.node(1 + r.n(6))
}

func randABC(r *rng, n int) string {
	b := make([]byte, n)
	for i := range b {
		b[i] = byte('a' + r.n(3))
	}
	return string(b)
}

// hand-written stack-hungry shapes (depth grows with the input)
var deepPats = []string{
	`(?:a|b)*c`, `(a|b|c)*d`, `(?:(?:a|b)(?:b|c)?)*$`, `(a*?b*?c*?)*d`, `(?:a+?b*)+c`, `((a)|(b)|(c))+\2`, `(?:^){3}(a|b)*`,
	`(?=(a+))a*b\1`, `(?<=(a|b)*)c`, `(a|ab|abc)*d`, `(?:a{1,3}b{0,2}){2,}c`, `(?>a|ab)*c`, `(?:(a)|(b)|(c)|(ab)|(bc)|(ca)|(abc))*$`,
	`(a)?(?(1)b|c)*d`, `(?<x>a)+(?<-x>b)*c`, `(\w+\s?)*$`, `^(a+)+$`, `(.*?,){3}x`,
	// the deep part runs in another interpreter mode (right-to-left inside a lookbehind, case-insensitive
	// section) behind a leading set: what an aborted call leaves in the mode flags meets the next call's
	// first-character search
	`[a-c]+(?<=(a|b|c)*)`, `\w+(?<=(?:[a-z]\d?)+)`, `\d+(?<=(?:\d|\d\d)+)x?`, `\w(?i:(?:a|B)*)c`, `[ab]+(?<!(?:c|b)*d)`,
	// ... and where the call is abandoned while backtracking into a single-character lazy loop of the lookbehind
	`\w+(?<=(?:b\w*?)+)`, `\w+(?<=^(?:b\w*?|c)+)`, `[a-c]+(?<=(?:c[ab]*?)+)`, `\w+(?<=(?:b\w*?)+)!`,
	// many captures per iteration inside an atomic group or lookahead (their backtracking frames are dropped at
	// the exit, the captures stay): the capture stack outgrows the backtracking stack
	`(?:(?>(a)(a)(a)(a)(a)(a)(a)(a)))*`, `^(?:(?=(a)(a)(a)(a))a)*`, `(?:(?>(a)|(b))(?=(a|b)?))*c`, `(?:(?>(a)(b)?(c)?))+$`,
}

type c13ref struct {
	res    string
	steps  int64
	capped bool
	peak   int
	tc     int
	err    string
}

var c13Cache = map[string]c13ref{}

// c13Reference runs the case with the limit disabled and reports the result, the peak
// capacity of the backtracking stack and the program's backtracking-instruction count.
func c13Reference(spec ReSpec, op *Op, cap int64) c13ref {
	spec.HasLimit, spec.Limit = true, -1
	key := fmt.Sprintf("%#v|%d|%#v|%#v|%q|%d|%d|%d", spec, op.Kind, op.In, op.In2, op.Repl, op.N, op.StartAt, cap)
	if v, ok := c13Cache[key]; ok {
		return v
	}
	if len(c13Cache) > 40000 {
		c13Cache = map[string]c13ref{}
	}
	resetGlobals(0)
	re, err := compileSpec(spec)
	if err != nil {
		v := c13ref{err: err.Error()}
		c13Cache[key] = v
		return v
	}
	w := vsim.NewWorld(1, vsim.Config{Policy: vsim.Fair, PoolMode: vsim.PoolLIFO, MaxSteps: cap})
	var res string
	var steps int64
	w.Spawn("ref", 1, func() {
		res = execOp(re, op, nil)
		steps = vsim.MySteps()
	})
	w.Run()
	v := c13ref{res: res, steps: steps, capped: w.Stop != vsim.StopNone}
	v.peak, _, _, _, _ = regexp2.VerifRunnerCaps(re)
	v.tc = regexp2.VerifTrackCount(re)
	c13Cache[key] = v
	return v
}

// packed straight-line passes: k copies of one construct that pushes its maximum number of slots without a
// backward jump in between, then a literal -- the shapes that test the capacity invariant itself (free space
// >= what one pass can push) rather than the growth logic
var packedUnits = []string{`(?:ab){0,2}?`, `(?:ab){0,2}`, `(?:x)??`, `(?:x)?`, `(a)`, `(?<n>a)?`, `(?=a)`, `(?!b)`, `(?<=a)`, `(?>a|b)?`,
	`(?:a|b|c)`, `(?:ab|a)??`, `(a)?(?(1)b|c)`, `(?<o>a)(?<-o>b)?`, `a*?`, `[ab]{1,3}?`, `(?:a{1,2}?){1,2}?`, `\b`, `(?i:a)??`,
	`()`, `(?:\b|\B)`, `(?:(?=a)|x)`, `(?:^|a)`,
	// greedy single-character loops (one instruction each, left-to-right and right-to-left variants differ)
	`a*`, `[ab]+`, `[^z]{0,2}`, `b?`, `.*`}

func packedPattern(r *rng) (string, []string) {
	u := packedUnits[r.n(len(packedUnits))]
	v := u
	if r.chance(1, 2) {
		// two units taking turns: adjacent copies of one single-character unit are merged by the tree reducer
		v = []string{"b??", "b*?", "(?:y)??", "b?", "[bc]{0,2}?", packedUnits[r.n(len(packedUnits))]}[r.n(6)]
	}
	k := 1 + r.n(12)
	if r.chance(1, 4) {
		k += r.n(40)
	}
	loopBody := r.chance(1, 6)
	if loopBody {
		// the body must be able to match without consuming the literal that drives the iterations
		opt := []string{`(?:ab){0,2}?`, `(?:ab){0,2}`, `(?:x)??`, `(?:x)?`, `(?<n>a)?`, `(?!b)`, `(?>a|b)?`, `(?:ab|a)??`, `a*?`, `(?i:a)??`, `()`, `a*`, `b?`, `a??`, `b??`, `[ab]{0,2}?`}
		u, v = opt[r.n(len(opt))], opt[r.n(len(opt))]
		if r.chance(2, 3) {
			k = 12 + r.n(40) // a long pass per iteration
		}
	}
	p := ""
	for i := 0; i < k; i++ {
		if r.chance(1, 8) && !loopBody {
			p += packedUnits[r.n(len(packedUnits))]
		} else if i%2 == 0 {
			p += u
		} else {
			p += v
		}
	}
	form := r.n(6)
	if loopBody {
		form = 6
	}
	switch form {
	case 6:
		// the train plus a consuming literal as the body of a loop: every pass pushes the train's frames again
		// (the marker "\x00loop" tells the caller to build an input of that literal)
		return "(?:" + p + "c)*" + []string{"d", "", "$"}[r.n(3)], []string{"\x00loop", "c", "cc", "d", "ccd", "a"}
	case 0:
		p = "(?:" + p + ")*"
	case 1:
		p = "^" + p
	case 3:
		// the whole train inside a lookbehind: the right-to-left variants of the same instructions
		p = []string{"(?<=", "(?<!"}[r.n(2)] + p + ")" + []string{"z", "", "a"}[r.n(3)]
	case 2:
		// a counted loop around it (zero-width passes below the minimum are iterations, too), then more pushes
		p = fmt.Sprintf("(?:%s){%d%s}%s", p, 2+r.n(30), []string{"", ",", ",40"}[r.n(3)], []string{"", "?"}[r.n(2)]) + []string{"", "(a)(b)(c)", "(a)?(b)?", "abc"}[r.n(4)]
	}
	p += []string{"z", "z", "", "$", "b"}[r.n(5)]
	return p, []string{"z", "a", "ab", "x", "b", "abab", "az", "", "c"}
}

var c13Kinds = []int{OpMatchString, OpMatchRunes, OpFindString, OpFindRunes, OpFindAllString, OpReplace, OpSplit, OpFindStringAt, OpReplaceFunc, OpCompatAllSubmatch}

func genC13(seed uint64, tier string) *Scenario {
	r := newRng(seed)
	sc := &Scenario{Prop: "C13", Seed: seed, SchedSeed: mix64(seed, 13), OpStepCap: 400_000, Mode: "lifo"}
	cfg := vsim.Config{Policy: vsim.Fair, PoolMode: vsim.PoolLIFO, MaxSteps: 2_000_000_000}
	if r.chance(1, 5) {
		cfg.PoolMode = vsim.PoolRandom
		cfg.MissProb = 200
		sc.Mode = "random-pool"
	}
	sc.Cfg = cfg
	var spec ReSpec
	var in InputSpec
	var frags []string
	// 0-3 random ASTs, 4 and 7 packed straight-line passes, 5-6 deep shapes, 8-9 corpus, 10-12 the special families
	switch x := r.n(13); {
	case x < 4:
		spec = ReSpec{Pat: randPattern(r), Opts: []int{0, 0, 0, oI, oM, oS, oRTL, oRE2, oE}[r.n(9)]}
		in = lit(randABC(r, r.n(40)))
		if r.chance(1, 4) {
			in = InputSpec{Pre: randABC(r, r.n(6)), Unit: randABC(r, 1+r.n(3)), Rep: 10 + r.n(200), Suf: randABC(r, r.n(4))}
		}
		frags = []string{"a", "b", "c", "ab", "abc", ""}
	case x == 10:
		// a train of back-references to one non-empty capture, no loop in between: whatever a reference
		// pushes is not separated from the next one's by a capacity check
		grp := []string{`(ab)`, `(a)`, `(?<n>ab)`, `(a|ab)`, `(b?a)`}[r.n(5)]
		ref := `\1`
		if grp == `(?<n>ab)` {
			ref = `\k<n>`
		}
		k := 1 + r.n(24)
		spec = ReSpec{Pat: grp + strings.Repeat(ref, k) + []string{"c", "", "$", "c?"}[r.n(4)], Opts: []int{0, 0, 0, oI, oRTL, oE}[r.n(6)]}
		unit := "ab"
		if grp == `(a)` {
			unit = "a"
		}
		in = InputSpec{Pre: randABC(r, r.n(3)), Unit: unit, Rep: k + 1 + r.n(2), Suf: []string{"c", "", "b"}[r.n(3)]}
		if r.chance(1, 5) {
			in.Rep = r.n(k + 1)
		}
		frags = []string{"a", "b", "c", "ab", "abab", ""}
	case x == 11:
		// large programs rather than long inputs: deep nesting, wide alternations, big {n} expansions -- the
		// instruction count (and with it the reserve) is large next to any small L
		k := 20 + r.n(280)
		var p string
		switch r.n(6) {
		case 0:
			p = strings.Repeat("(", k) + "a" + strings.Repeat(")?", k)
		case 1:
			p = strings.Repeat("(?:", k) + "a|b" + strings.Repeat(")*?", k/8+1) + strings.Repeat(")", k-k/8-1)
		case 2:
			var alts []string
			for i := 0; i < k; i++ {
				alts = append(alts, fmt.Sprintf("a{%d}b", i%7+1))
			}
			p = "(?:" + strings.Join(alts, "|") + ")+c"
		case 3:
			p = fmt.Sprintf("(?:a(b)?){%d}", k)
		case 4:
			p = strings.Repeat("(?=", k/4+1) + "a" + strings.Repeat(")", k/4+1) + "a+"
		default:
			p = fmt.Sprintf("(?:(?:ab){%d}|a)*$", k/10+2)
		}
		spec = ReSpec{Pat: p, Opts: []int{0, 0, oRTL, oI, oN}[r.n(5)]}
		in = InputSpec{Pre: randABC(r, r.n(3)), Unit: []string{"a", "ab", "aab", "b"}[r.n(4)], Rep: 1 + r.n(k+20), Suf: []string{"", "c", "b"}[r.n(3)]}
		frags = []string{"a", "b", "ab", "c", "aab", ""}
	case x == 12:
		// a chain of single-character loops over different letters, every one of which matches something in
		// one pass: left to right, right to left, and right to left inside a lookbehind
		k := 2 + r.n(15)
		var pb, ib strings.Builder
		quants := [][]string{{"*"}, {"*", "*", "+", "{0,2}"}, {"*", "*", "+", "{0,2}", "{1,3}", "*?", "?"}, {"*?", "+?", "??"}}[r.n(4)]
		for i := 0; i < k; i++ {
			c := string(rune('a' + i))
			set := []string{c, c, "[" + c + strings.ToUpper(c) + "]", "[^#" + string(rune('a'+(i+1)%k)) + "]"}[r.n(4)]
			pb.WriteString(set + quants[r.n(len(quants))])
			ib.WriteString(strings.Repeat(c, 1+r.n(3)))
		}
		chain, text := pb.String(), ib.String()
		switch r.n(4) {
		case 0:
			spec = ReSpec{Pat: chain}
		case 1:
			spec = ReSpec{Pat: chain, Opts: oRTL}
		case 2:
			spec = ReSpec{Pat: "(?<=" + chain + ")X"}
			text += "X"
		default:
			spec = ReSpec{Pat: "(?<!" + chain + "#)X", Opts: []int{0, oI}[r.n(2)]}
			text += "X"
		}
		in = lit(text)
		if r.chance(1, 4) {
			in = InputSpec{Pre: randABC(r, r.n(3)), Unit: text, Rep: 1 + r.n(3)}
		}
		frags = []string{"a", "b", "ab", "abc", "X", "aabbX", ""}
	case x == 4 || x == 7:
		pat, fr := packedPattern(r)
		spec = ReSpec{Pat: pat}
		if r.chance(1, 6) {
			spec.Opts = oRTL
		}
		frags = fr
		t := ""
		for k := r.n(5); k > 0; k-- {
			t += fr[r.n(len(fr))]
		}
		in = lit(t)
		if t != "" && r.chance(1, 3) {
			in = InputSpec{Unit: t, Rep: 2 + r.n(40)} // several passes when the train sits inside a loop
		}
		if fr[0] == "\x00loop" {
			frags = fr[1:]
			in = InputSpec{Unit: "c", Rep: 1 + r.n(12), Suf: []string{"d", "", "cd"}[r.n(3)]}
		}
	case x < 7:
		spec = ReSpec{Pat: deepPats[r.n(len(deepPats))]}
		if r.chance(1, 6) {
			spec.Opts = oRTL
		}
		in = InputSpec{Pre: randABC(r, r.n(5)), Unit: []string{"a", "ab", "abc", "b", "a,", "ab "}[r.n(6)], Rep: 1 + r.n(400), Suf: []string{"", "c", "d", "!", "x"}[r.n(5)]}
		frags = []string{"a", "b", "c", "d", "ab", " ", ","}
	default:
		p := &corpus[r.n(len(corpus))]
		spec = ReSpec{Pat: p.Pat, Opts: p.Opts}
		in = genInput(r, p, true)
		frags = p.Frags
	}
	if r.chance(1, 4) {
		// the limit next to every other tuning option: it must stay the limit that was asked for
		applyKnobs(r, &spec)
		if r.chance(1, 3) {
			spec.KeepOrder = true
		}
	}
	sc.Res = []ReSpec{spec}
	op := Op{Kind: c13Kinds[r.n(len(c13Kinds))], Re: 0, In: in, N: -1, Repl: pickRepl(r), TimeoutNs: -1}
	if op.Kind == OpFindStringAt {
		op.StartAt = 0
	}
	ref := c13Reference(spec, &op, sc.OpStepCap)
	if ref.err != "" || ref.capped {
		sc.Note = "skipped: does not compile or exceeds the step cap with the limit disabled"
		return sc
	}
	// follow-up calls on the same Regexp: another entry point, a shorter input, then the case itself again
	cl := Client{Cost: 1, Ops: []Op{op}}
	nf := 1 + r.n(3)
	for k := 0; k < nf; k++ {
		f := Op{Kind: c13Kinds[r.n(len(c13Kinds))], Re: 0, N: -1, Repl: pickRepl(r), TimeoutNs: -1}
		switch r.n(3) {
		case 0:
			t := in.Text()
			f.In = lit(t[:len(t)/2])
			if !validUTF8Prefix(t, len(t)/2) {
				f.In = lit("")
			}
		case 1:
			f.In = genInput(r, &pat{Frags: frags}, false)
		default:
			f.In = in
		}
		fr := c13Reference(spec, &f, sc.OpStepCap)
		if fr.err != "" || fr.capped {
			continue
		}
		cl.Ops = append(cl.Ops, f)
	}
	sc.Clients = []Client{cl}
	// the limits: every refusal point when the peak is small, else a spread
	maxEx := 512
	if tier == "thorough" {
		maxEx = 2048
	}
	set := map[int]bool{}
	if ref.peak+1 <= maxEx {
		for l := 0; l <= ref.peak+1; l++ {
			set[l] = true
		}
		sc.Exhaust = true
	} else {
		for l := 0; l <= 64; l++ {
			set[l] = true
		}
		for _, l := range []int{4 * ref.tc, 8 * ref.tc, ref.peak, 100, 1000} {
			for d := -1; d <= 1; d++ {
				if l+d >= 0 {
					set[l+d] = true
				}
			}
		}
		for p2 := 64; p2 <= 2*ref.peak; p2 *= 2 {
			set[p2-1], set[p2], set[p2+1] = true, true, true
		}
		for k := 0; k < 64; k++ {
			set[r.n(ref.peak+2)] = true
		}
	}
	set[100000] = true // the default
	// very large limits: nothing in the size arithmetic (doubling, reserve, comparisons) may wrap
	for _, l := range []int{1<<31 - 1, 1 << 31, 1 << 62, 1<<63 - 1} {
		set[l] = true
	}
	for l := range set {
		sc.Limits = append(sc.Limits, l)
	}
	sort.Ints(sc.Limits)
	sc.Limits = append(sc.Limits, -1)
	nameOps(sc)
	return sc
}

func validUTF8Prefix(s string, n int) bool {
	if n >= len(s) {
		return true
	}
	return s[n]&0xC0 != 0x80
}

// outcome of a call under a limit, relative to its unlimited reference
func limitOutcome(got, ref string) string {
	switch {
	case got == ref:
		return "ok"
	case strings.HasPrefix(got, "PANIC:"):
		return "panic"
	case strings.HasSuffix(got, "LIMIT"):
		if got == "LIMIT" || strings.HasPrefix(ref, strings.TrimSuffix(got, "LIMIT")) {
			return "limit"
		}
		return "wrong"
	}
	return "wrong"
}

func runC13(sc *Scenario, ro runOpts) *runResult {
	rr := &runResult{Probes: map[string]int64{}}
	if len(sc.Clients) == 0 || len(sc.Limits) == 0 {
		rr.Probes["skipped_case"]++
		return rr
	}
	viol := func(class string, i int, format string, a ...any) {
		if len(rr.Violations) < 8 {
			rr.Violations = append(rr.Violations, Violation{Class: class, Client: 0, Op: i, Detail: fmt.Sprintf(format, a...)})
		}
	}
	spec := sc.Res[0]
	ops := sc.Clients[0].Ops
	refs := make([]c13ref, len(ops))
	for i := range ops {
		refs[i] = c13Reference(spec, &ops[i], sc.OpStepCap)
		if refs[i].err != "" || refs[i].capped {
			rr.Probes["skipped_case"]++
			return rr
		}
	}
	desc := fmt.Sprintf("pattern=%q opts=%#x %s input=%s", spec.Pat, spec.Opts, opNames[ops[0].Kind], clip(fmt.Sprintf("%q", ops[0].In.Text())))
	resetGlobals(0)
	w := vsim.NewWorld(sc.SchedSeed, sc.Cfg)
	type lres struct {
		l        int
		outcome  string
		got      string
		capTrack int
	}
	var results []lres
	w.Spawn("case", 1, func() {
		for _, L := range sc.Limits {
			s := spec
			s.HasLimit, s.Limit = true, L
			re, err := compileSpec(s)
			if err != nil {
				results = append(results, lres{l: L, outcome: "compile", got: err.Error()})
				continue
			}
			vsim.SetOpLimits(20*refs[0].steps+20000, 0)
			got := execOp(re, &ops[0], nil)
			vsim.SetOpLimits(0, 0)
			track, _, _, _, capOK := regexp2.VerifRunnerCaps(re)
			if !capOK {
				rr.Probes["capacity_observer_unavailable"]++
			}
			lr := lres{l: L, outcome: limitOutcome(got, refs[0].res), got: got, capTrack: track}
			// recovery: the Regexp (and the abandoned interpreter state the pool hands back) stays usable
			for i := 1; i < len(ops); i++ {
				vsim.SetOpLimits(20*refs[i].steps+20000, 0)
				g := execOp(re, &ops[i], nil)
				vsim.SetOpLimits(0, 0)
				rr.Probes["followup_calls"]++
				if o := limitOutcome(g, refs[i].res); o != "ok" && o != "limit" {
					viol("limit-recovery", i, "%s: after the call under L=%d (%s), %s on %s returned %s, unlimited result %s", desc, L, lr.outcome, opNames[ops[i].Kind], clip(fmt.Sprintf("%q", ops[i].In.Text())), clip(g), clip(refs[i].res))
				}
				if t2, _, _, _, _ := regexp2.VerifRunnerCaps(re); t2 > track {
					track = t2
				}
			}
			// the same call once more: again the unlimited result or the limit error.  (That it is the *same*
			// outcome as the first time is history independence, i.e. property C12, and is checked there.)
			again := execOp(re, &ops[0], nil)
			if o := limitOutcome(again, refs[0].res); o != "ok" && o != "limit" {
				viol("limit-recovery", 0, "%s: L=%d first call %s (%s), same call again %s (%s)", desc, L, lr.outcome, clip(lr.got), o, clip(again))
			} else if o != lr.outcome {
				rr.Probes["repeat_outcome_differs"]++
			}
			if t2, _, _, _, _ := regexp2.VerifRunnerCaps(re); t2 > track {
				track = t2
			}
			lr.capTrack = track
			results = append(results, lr)
		}
	})
	w.Run()
	rr.St, rr.Steps, rr.Vnow, rr.Hash, rr.IHash, rr.Stop = w.St, w.Steps, w.Vnow, w.Hash, w.IHash, w.Stop
	if w.Stop != vsim.StopNone {
		L := -2
		if len(results) < len(sc.Limits) {
			L = sc.Limits[len(results)]
		}
		viol("progress", 0, "%s: under L=%d a call used more than 20x+20000 the steps of the unlimited run (%d) [stop=%s]", desc, L, refs[0].steps, stopNames[w.Stop])
	}
	for i := 0; i < w.NTasks(); i++ {
		if t := w.TaskAt(i); t.Panic != nil {
			viol("panic", 0, "%s: %v", desc, t.Panic)
		}
	}
	minOK := -2
	nOK, nLim := 0, 0
	for _, lr := range results {
		rr.Probes["limit_evals"]++
		switch lr.outcome {
		case "ok":
			nOK++
		case "limit":
			nLim++
			rr.Probes["limit_errors_fired"]++
		case "panic":
			viol("limit-panic", 0, "%s: L=%d: %s", desc, lr.l, clip(lr.got))
		case "compile":
			viol("limit-other-error", 0, "%s: L=%d does not compile: %s", desc, lr.l, lr.got)
		default:
			viol("limit-wrong-result", 0, "%s: L=%d returned %s, unlimited result %s", desc, lr.l, clip(lr.got), clip(refs[0].res))
		}
		if lr.l >= 0 && lr.capTrack > lr.l {
			viol("limit-cap-exceeded", 0, "%s: L=%d but the backtracking stack has %d slots", desc, lr.l, lr.capTrack)
		}
		// monotone: limits are sorted ascending with -1 (unlimited) last
		if lr.outcome == "ok" && minOK == -2 {
			minOK = lr.l
		}
		if lr.outcome == "limit" && minOK != -2 {
			viol("limit-non-monotone", 0, "%s: succeeds with L=%d but fails with the larger L=%d", desc, minOK, lr.l)
		}
	}
	if nOK > 0 && nLim > 0 {
		rr.Probes["nontrivial"] = 1
		rr.NTHashes = append(rr.NTHashes, mixStr(desc)^mix64(uint64(len(sc.Limits)), 13))
	}
	if sc.Exhaust {
		rr.Probes["exhaustive_case"] = 1
	}
	rr.Probes[fmt.Sprintf("peak_le_%d", bucket(refs[0].peak))]++
	rr.Probes[fmt.Sprintf("trackcount_le_%d", bucket(refs[0].tc))]++
	return rr
}

func bucket(n int) int {
	b := 1
	for b < n {
		b *= 4
	}
	return b
}
