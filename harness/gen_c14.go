package main

import (
	"math"
	"time"

	"github.com/dlclark/regexp2/v2/vsim"
)

var heavyKinds = []int{OpMatchString, OpMatchString, OpMatchRunes, OpFindString, OpFindAllString, OpReplace, OpSplit, OpReplaceFunc, OpFindRunes}

const defaultOpCap = 3_000_000

// genC14ExitRace: histories that keep a caller arriving just when the clock goroutine is about to exit
// (idle gaps of about "last deadline + shutdown slop"), while the clock goroutine is descheduled for up to
// a few periods at its lock operations: the check-then-act windows of the clock's start/extend/exit logic.
func genC14ExitRace(seed uint64, r *rng) *Scenario {
	sc := &Scenario{Prop: "C14", Seed: seed, SchedSeed: mix64(seed, 14), OpStepCap: defaultOpCap, Mode: "exit-race"}
	p := []int64{int64(time.Millisecond), int64(5 * time.Millisecond)}[r.n(2)]
	sc.PeriodNs = p
	cfg := vsim.Config{Policy: vsim.Fair, Quantum: 50 + r.i64(200), MaxSteps: 80_000_000, PoolMode: vsim.PoolRandom, MissProb: 100,
		SyncStallProb: 100 + uint32(r.n(300)), SyncStallMax: p + r.i64(3*p), SyncStallSpawned: true}
	if r.chance(1, 3) {
		cfg.Policy = vsim.Adversarial
		cfg.Quantum = 2000 + r.i64(8000)
		cfg.SwitchProb = uint32(100 + r.n(400))
		cfg.WakeRunProb = uint32(500 + r.n(500))
	}
	ncl := 1 + r.n(2)
	s := int64(time.Second)
	for c := 0; c < ncl; c++ {
		cost := p / int64(400+r.n(4000))
		if cost < 1 {
			cost = 1
		}
		cl := Client{Cost: cost}
		for round := 1 + r.n(3); round > 0; round-- {
			// a timed call that defines when the clock will stop ...
			f := catastrophic[r.n(len(catastrophic))]
			maxD := min64(defaultOpCap*cost/4-3*p, 40*p)
			if maxD < 3*p {
				break
			}
			d := 2*p + r.i64(maxD-2*p)
			first := Op{Kind: heavyKinds[r.n(len(heavyKinds))], Re: addRe(sc, ReSpec{Pat: f.Pat, Opts: f.Opts, Private: c + 1}), In: f.In, TimeoutNs: d, Heavy: true, N: -1, Repl: "<$0>"}
			gap := s
			if r.chance(1, 2) {
				q := quickTimed[r.n(len(quickTimed))]
				first = Op{Kind: OpMatchString, Re: addRe(sc, ReSpec{Pat: q.Pat, Opts: q.Opts, Private: c + 1}), In: q.In, TimeoutNs: d + 20*p, N: -1}
				gap = d + 20*p + p + s
			} else if v := pristine(sc.Res[first.Re], &first, defaultOpCap); !v.capped {
				continue
			}
			cl.Ops = append(cl.Ops, first)
			// ... an idle gap that ends about when it stops ...
			cl.Ops = append(cl.Ops, Op{Kind: OpIdle, IdleNs: gap - p + r.i64(4*p)})
			// ... and a catastrophic timed call that needs the clock
			g := catastrophic[r.n(len(catastrophic))]
			d2 := 2*p + r.i64(maxD-2*p)
			second := Op{Kind: heavyKinds[r.n(len(heavyKinds))], Re: addRe(sc, ReSpec{Pat: g.Pat, Opts: g.Opts, Private: c + 1}), In: g.In, TimeoutNs: d2, Heavy: true, N: -1, Repl: "<$0>"}
			if v := pristine(sc.Res[second.Re], &second, defaultOpCap); v.capped {
				cl.Ops = append(cl.Ops, second)
			}
			if r.chance(1, 2) {
				cl.Ops = append(cl.Ops, Op{Kind: OpIdle, IdleNs: []int64{3 * s, p, 2*s + r.i64(s)}[r.n(3)]})
			}
		}
		sc.Clients = append(sc.Clients, cl)
	}
	sc.Cfg = cfg
	viaUnmarshal(r, sc, 1, 6)
	nameOps(sc)
	return sc
}

// genC14 builds a history of timed/untimed matches, idle gaps and StopTimeoutClock calls
// for 1-3 clients (DESIGN §3 C14).  tier scales nothing here: runs are short by design.
var c14Thorough bool

func genC14(seed uint64) *Scenario {
	r := newRng(seed)
	if r.chance(1, 7) {
		return genC14ExitRace(seed, r)
	}
	sc := &Scenario{Prop: "C14", Seed: seed, SchedSeed: mix64(seed, 14), OpStepCap: defaultOpCap}
	periods := []int64{int64(time.Millisecond), int64(time.Millisecond), int64(5 * time.Millisecond), int64(100 * time.Millisecond)}
	p := periods[r.n(len(periods))]
	sc.PeriodNs = p
	ncl := 1 + r.n(3)
	if c14Thorough && r.chance(1, 4) {
		ncl = 2 + r.n(4) // up to 5 concurrent deadlines
	}
	crowd := r.chance(1, 14)
	if crowd {
		ncl = 6 + r.n(11) // a crowd of concurrent deadlines (6-16 callers, a call or two each)
	}
	mode := r.n(10)
	cfg := vsim.Config{Policy: vsim.Fair, Quantum: 50 + r.i64(200), MaxSteps: 60_000_000, PoolMode: vsim.PoolRandom, MissProb: 200, DropProb: 100}
	switch {
	case mode < 6:
		sc.Mode = "fair"
		if r.chance(1, 2) {
			cfg.Jitter = p / 4
		}
	case mode < 8:
		sc.Mode = "stall"
		cfg.Jitter = p / 4
		cfg.StallProb = 40 + uint32(r.n(100))
		cfg.StallMax = p * int64(1+r.n(20))
		if r.chance(2, 3) {
			// tasks (callers and the clock goroutine alike) are descheduled for a while at sync points
			cfg.SyncStallProb = 8 + uint32(r.n(60))
			cfg.SyncStallMax = p/2 + r.i64(4*p)
			if r.chance(1, 2) {
				cfg.StallProb = 0
			}
		}
	default:
		sc.Mode = "adversarial"
		cfg.Policy = vsim.Adversarial
		cfg.Quantum = 2000 + r.i64(8000)
		cfg.SwitchProb = uint32(100 + r.n(500))
		cfg.WakeRunProb = uint32(400 + r.n(600))
		cfg.Jitter = p / 4 * int64(r.n(2))
	}
	// a few histories use timeouts of hours to centuries for calls that finish at once: they must not time out.
	// The clock then legitimately runs for that long, so these histories have no long idle gaps and are not drained.
	hugeTimeouts := r.chance(1, 12)
	if hugeTimeouts {
		sc.NoDrain = true
	}
	withStops := r.chance(1, 4) && !hugeTimeouts
	nphases := 1
	if withStops {
		nphases = 2 + r.n(2)
	}
	// lockstep: clients are released together by a barrier (often after an idle period long enough for the
	// clock to have stopped) and then advance a few statements at a time, so that their clock start-up /
	// extension code interleaves at statement granularity
	lockstep := sc.Mode == "fair" && !hugeTimeouts && r.chance(1, 3)
	var phaseIdle []int64
	if lockstep {
		sc.Mode = "lockstep"
		if ncl < 2 {
			ncl = 2 + r.n(2)
		}
		cfg.Quantum = 1 + r.i64(40)
		nphases = 2 + r.n(3)
		for ph := 0; ph < nphases; ph++ {
			idle := int64(0)
			if r.chance(2, 3) {
				idle = []int64{int64(time.Second) + 250*p, 2*int64(time.Second) + 400*p, longIdle(r)}[r.n(3)]
			}
			phaseIdle = append(phaseIdle, idle)
		}
	}
	// stop-overlap: a catastrophic timed call starts a fraction of a period AFTER another client has posted its
	// stop request and while that StopTimeoutClock is still waiting for the clock goroutine; the call extends the
	// clock again and must time out when due.  (A call that computed its deadline just BEFORE the request loses
	// its clock on the pinned tree as well -- DESIGN section 8 -- so the order is pinned by a barrier and a short sleep,
	// and only where no fault can delay the stopping client.)
	stopOverlap := withStops && (sc.Mode == "fair" || sc.Mode == "lockstep") && r.chance(1, 2)
	if stopOverlap && ncl < 2 {
		ncl = 2
	}
	for c := 0; c < ncl; c++ {
		cost := p / int64(200+r.n(19800))
		if cost < 1 {
			cost = 1
		}
		cl := Client{Cost: cost}
		lastD := p * 10
		lastHeavy := false
		for ph := 0; ph < nphases; ph++ {
			n := 1 + r.n(4)
			if crowd {
				n = 1 + r.n(2)
			} else if nphases == 1 {
				n = 2 + r.n(5)
				if c14Thorough && r.chance(1, 4) {
					n += r.n(10) // longer histories
				}
			}
			for k := 0; k < n; k++ {
				x := r.n(10)
				if lockstep && k == 0 {
					x = []int{0, 0, 0, 1, 4, 5}[r.n(6)] // the call right behind the barrier is a timed one
				}
			again:
				switch {
				case x < 4: // catastrophic timed call
					f := catastrophic[r.n(len(catastrophic))]
					maxD := defaultOpCap*cost/4 - 3*p
					if maxD > 200*p {
						maxD = 200 * p
					}
					if maxD < 2*p {
						continue
					}
					d := 2*p + r.i64(maxD-2*p+1)
					if r.chance(1, 2) && maxD > 30*p {
						d = 2*p + r.i64(28*p)
					}
					if r.chance(1, 12) {
						// timeouts below the clock period, and timeouts that have expired before the call starts
						d = []int64{1, 1000, p / 8, p / 2, p, p + 1, -2, -p, -3 * p, -int64(time.Second), -int64(time.Hour)}[r.n(11)]
					}
					op := Op{Kind: heavyKinds[r.n(len(heavyKinds))], Re: addRe(sc, ReSpec{Pat: f.Pat, Opts: f.Opts, Private: c + 1}), In: f.In, TimeoutNs: d, Heavy: true, N: -1, Repl: "<$0>"}
					if v := pristine(sc.Res[op.Re], &op, defaultOpCap); !v.capped {
						continue // not catastrophic on this tree: not a subject of this property
					}
					cl.Ops = append(cl.Ops, op)
					lastD, lastHeavy = d, true
				case x < 6: // quick timed call
					f := quickTimed[r.n(len(quickTimed))]
					op := Op{Kind: heavyKinds[r.n(len(heavyKinds))], Re: addRe(sc, ReSpec{Pat: f.Pat, Opts: f.Opts, Private: c + 1}), In: f.In, N: -1, Repl: "<$0>"}
					v := pristine(sc.Res[op.Re], &op, defaultOpCap)
					if v.capped {
						continue
					}
					maxC := cost
					d := 2*p + 8*int64(ncl)*v.steps*maxC + r.i64(100*p)
					if hugeTimeouts && r.chance(1, 2) {
						// very long timeouts, up to the largest value that is not the "no timeout" sentinel
						d = []int64{int64(time.Hour), 24 * int64(time.Hour), 100 * 365 * 24 * int64(time.Hour), math.MaxInt64 - int64(time.Second), math.MaxInt64 - p/2, math.MaxInt64 - 1}[r.n(6)]
					}
					op.TimeoutNs = d
					if (op.Kind == OpFindString || op.Kind == OpFindRunes) && !hugeTimeouts && d < 500*p && r.chance(1, 3) {
						// the caller takes its time between two FindNextMatch calls: every call has its own deadline
						op.IdleNs = []int64{d / 2, d + 2*p, 2 * d}[r.n(3)]
					}
					cl.Ops = append(cl.Ops, op)
					lastD, lastHeavy = d, false
				case x < 7 && r.chance(1, 2): // a timed call that is abandoned by the backtracking stack limit, not by its deadline
					lf := lateLimit[r.n(len(lateLimit))]
					in := lf.In
					if r.chance(1, 3) {
						in = lit(lf.Probe[r.n(len(lf.Probe))])
					}
					op := Op{Kind: heavyKinds[r.n(len(heavyKinds))], Re: addRe(sc, ReSpec{Pat: lf.Pat, Opts: lf.Opts, HasLimit: true, Limit: lf.Limit / 2, Private: c + 1}), In: in, N: -1, Repl: "<$0>"}
					v := pristine(sc.Res[op.Re], &op, defaultOpCap)
					if v.capped {
						continue
					}
					op.TimeoutNs = 2*p + 8*int64(ncl)*v.steps*cost + r.i64(100*p)
					cl.Ops = append(cl.Ops, op)
					lastD, lastHeavy = op.TimeoutNs, false
				case x < 7: // untimed call
					f := quickTimed[r.n(len(quickTimed))]
					op := Op{Kind: heavyKinds[r.n(len(heavyKinds))], Re: addRe(sc, ReSpec{Pat: f.Pat, Opts: f.Opts, Private: c + 1}), In: f.In, TimeoutNs: -1, N: -1, Repl: "<$0>"}
					cl.Ops = append(cl.Ops, op)
				default: // idle gap around the clock's shutdown slop
					if hugeTimeouts {
						cl.Ops = append(cl.Ops, Op{Kind: OpIdle, IdleNs: []int64{p / 2, 3 * p, 10 * p}[r.n(3)]})
						continue
					}
					s := int64(time.Second)
					// when the clock goroutine exits, measured from the end of the previous timed call: a call
					// that ran into its deadline ends at about the deadline (exit ~1s + a tick or two later),
					// a quick one ends at once (exit ~d + p + 1s later)
					base := s
					if !lastHeavy {
						base = lastD + p + s
					}
					idles := []int64{lastD / 2, base - p, base, base + 3*p, 2 * (lastD + s), 10 * (lastD + s), longIdle(r), p / 2, 3 * p,
						base - p/2 + r.i64(3*p), base - p/2 + r.i64(3*p), base - p/2 + r.i64(3*p), base + r.i64(p)}
					cl.Ops = append(cl.Ops, Op{Kind: OpIdle, IdleNs: idles[r.n(len(idles))]})
					if r.chance(1, 2) {
						x = []int{0, 0, 4}[r.n(3)] // mostly a timed call right after the gap
						goto again
					}
				}
			}
			if lockstep && ph < nphases-1 && phaseIdle[ph] > 0 {
				cl.Ops = append(cl.Ops, Op{Kind: OpIdle, IdleNs: phaseIdle[ph]})
			}
			if withStops && ph < nphases-1 {
				cl.Ops = append(cl.Ops, Op{Kind: OpBarrier})
				if c == 0 && stopOverlap {
					cl.Ops = append(cl.Ops, Op{Kind: OpStopClock, N: 1})
				} else if c == 0 {
					cl.Ops = append(cl.Ops, Op{Kind: OpStopClock})
				} else if c == 1 && stopOverlap {
					for try := 0; try < 4; try++ {
						f := catastrophic[r.n(len(catastrophic))]
						op := Op{Kind: heavyKinds[r.n(len(heavyKinds))], Re: addRe(sc, ReSpec{Pat: f.Pat, Opts: f.Opts, Private: c + 1}), In: f.In, TimeoutNs: 2*p + r.i64(28*p), Heavy: true, N: -1, Repl: "<$0>"}
						if v := pristine(sc.Res[op.Re], &op, defaultOpCap); v.capped && defaultOpCap*cost/4 > op.TimeoutNs+3*p {
							cl.Ops = append(cl.Ops, Op{Kind: OpIdle, IdleNs: p/4 + r.i64(p/8)}, op)
							break
						}
					}
				}
				cl.Ops = append(cl.Ops, Op{Kind: OpBarrier})
			} else if lockstep && ph < nphases-1 {
				cl.Ops = append(cl.Ops, Op{Kind: OpBarrier})
			}
		}
		sc.Clients = append(sc.Clients, cl)
	}
	// the quick-call deadline used the client's own cost; other clients may be slower
	maxCost := int64(1)
	for _, cl := range sc.Clients {
		if cl.Cost > maxCost {
			maxCost = cl.Cost
		}
	}
	for c := range sc.Clients {
		for i := range sc.Clients[c].Ops {
			op := &sc.Clients[c].Ops[i]
			if op.TimeoutNs > 0 && !op.Heavy {
				v := pristine(sc.Res[op.Re], op, defaultOpCap)
				if min := 2*p + 8*int64(ncl)*v.steps*maxCost; op.TimeoutNs < min {
					op.TimeoutNs = min
				}
			}
		}
	}
	sc.Cfg = cfg
	if !hugeTimeouts && r.chance(1, 8) {
		// the process-wide default lowered to one of the deadlines of this run: a MatchTimeout equal to
		// the default is an ordinary timeout
		var ds []int64
		for _, cl := range sc.Clients {
			for _, o := range cl.Ops {
				if o.TimeoutNs > 0 {
					ds = append(ds, o.TimeoutNs)
				}
			}
		}
		if len(ds) > 0 {
			sc.DefaultTimeoutNs = ds[r.n(len(ds))]
		}
	}
	viaUnmarshal(r, sc, 1, 6)
	nameOps(sc)
	return sc
}

// longIdle: an hour, or long enough for the tick counter (about a millisecond per tick) to pass 2^31 and 2^32
// and for the time base to lie years back.
func longIdle(r *rng) int64 {
	day := 24 * int64(time.Hour)
	return []int64{int64(time.Hour), int64(time.Hour), 26 * day, 50 * day, 3 * 365 * day}[r.n(5)]
}

func addRe(sc *Scenario, s ReSpec) int {
	for i := range sc.Res {
		if sc.Res[i] == s {
			return i
		}
	}
	sc.Res = append(sc.Res, s)
	return len(sc.Res) - 1
}

func nameOps(sc *Scenario) {
	for c := range sc.Clients {
		for i := range sc.Clients[c].Ops {
			sc.Clients[c].Ops[i].Name = opNames[sc.Clients[c].Ops[i].Kind]
		}
	}
}
