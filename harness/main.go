// simharness: deterministic-simulation harness for regexp2 (see /verif/DESIGN.md).
//
//	simharness worker -prop C14 -seed S -worker i -budget 40 -out DIR   run seeded scenarios, write DIR/worker-i.json (+ fail-*.json)
//	simharness exec FILE [-trace OUT]                                   execute one run file; exit 3 and print the violations if any
//	simharness gen -prop C14 -seed S                                    print the run file generated for one run seed
package main

import (
	"encoding/json"
	"flag"
	"fmt"
	"os"
	"path/filepath"
	"sort"
	"strings"
	"time"

	regexp2 "github.com/dlclark/regexp2/v2"
	"github.com/dlclark/regexp2/v2/vsim"
)

func propNum(p string) uint64 {
	var n uint64
	fmt.Sscanf(strings.TrimPrefix(p, "C"), "%d", &n)
	return n
}

func genFor(prop string, seed uint64, tier string) *Scenario {
	replHot = replHot[:0]
	switch prop {
	case "C11":
		return genC11(seed, tier)
	case "C12":
		return genC12(seed, tier)
	case "C13":
		return genC13(seed, tier)
	case "C14":
		c14Thorough = tier == "thorough"
		return genC14(seed)
	}
	fmt.Fprintf(os.Stderr, "unknown property %q\n", prop)
	os.Exit(2)
	return nil
}

func execFor(sc *Scenario, ro runOpts) *runResult {
	if sc.Prop == "C13" {
		return runC13(sc, ro)
	}
	return runScript(sc, ro)
}

type workerOut struct {
	Prop       string            `json:"property"`
	Flavour    string            `json:"flavour"`
	Seed       uint64            `json:"seed"`
	Worker     int               `json:"worker"`
	Runs       int64             `json:"runs"`
	Ops        int64             `json:"ops"`
	Steps      int64             `json:"steps"`
	VtimeNs    float64           `json:"vtime_ns"`
	WallS      float64           `json:"wall_s"`
	Stats      map[string]int64  `json:"stats"`
	Probes     map[string]int64  `json:"probes"`
	Modes      map[string]int64  `json:"modes"`
	Stops      map[string]int64  `json:"stops"`
	IHashes    []string          `json:"ihashes"`
	NonTrivial []string          `json:"nontrivial"` // distinct non-trivial case hashes (rule per property)
	Pairs      []string          `json:"pairs"`
	Samples    []json.RawMessage `json:"samples"`
	Failures   []string          `json:"failures"`
	FailClass  []string          `json:"fail_classes"`
	AggHash    string            `json:"agg_hash"`
	OracleHit  int               `json:"oracle_hits"`
	OracleMiss int               `json:"oracle_miss"`
	Exhaustive int64             `json:"exhaustive_cases"`
}

func addStats(m map[string]int64, st vsim.Stats) {
	m["switches"] += st.Switches
	m["yields"] += st.Yields
	m["sync_events"] += st.SyncEvents
	m["preemptions_taken"] += st.PreemptsHit
	m["quantum_expiries"] += st.QuantumHit
	m["pool_gets"] += st.PoolGets
	m["pool_hits"] += st.PoolHits
	m["pool_forced_miss"] += st.PoolForcedMiss
	m["pool_empty_miss"] += st.PoolEmptyMiss
	m["pool_arbitrary_item"] += st.PoolArbitrary
	m["pool_duplicate_item"] += st.PoolDups
	m["pool_puts"] += st.PoolPuts
	m["pool_drops"] += st.PoolDrops
	m["buffer_scribbles"] += st.Scribbles
	m["mutex_locks"] += st.MutexLocks
	m["mutex_blocks"] += st.MutexBlocks
	m["tasks_spawned_by_code"] += st.Spawns
	m["timer_fires"] += st.TimerFires
	m["timer_jittered"] += st.Jittered
	m["task_stalls"] += st.Stalls
	m["idle_clock_jumps"] += st.ClockJumps
	m["overlapping_switches"] += st.OverlapSwitches
	m["sync_point_stalls"] += st.SyncStalls
}

var stopNames = map[int]string{0: "completed", 1: "deadlock", 2: "overrun", 3: "op_step_limit", 4: "op_vtime_limit", 5: "world_vtime_limit", 6: "requested"}

func main() {
	if regexp2.IgnoreCase != oI || regexp2.RightToLeft != oRTL || regexp2.RE2 != oRE2 || regexp2.ECMAScript != oE || regexp2.Multiline != oM ||
		regexp2.ExplicitCapture != oN || regexp2.Singleline != oS || regexp2.IgnorePatternWhitespace != oX || regexp2.Unicode != oU {
		fmt.Fprintln(os.Stderr, "option constants differ from the harness's copy")
		os.Exit(2)
	}
	if len(os.Args) < 2 {
		fmt.Fprintln(os.Stderr, "usage: simharness worker|exec|gen ...")
		os.Exit(2)
	}
	switch os.Args[1] {
	case "worker":
		workerMain(os.Args[2:])
	case "exec":
		execMain(os.Args[2:])
	case "opscheck":
		// every operation kind must have an implementation (an unimplemented one exits with status 2 in execOp)
		for k := 0; k < nOpKinds; k++ {
			if isSilentOp(k) || k == OpEngine {
				continue
			}
			op := Op{Kind: k, In: lit("ab ab"), In2: lit("ab"), Repl: "<$0>", N: -1, TimeoutNs: -1}
			v := pristine(ReSpec{Pat: `(a)(b)?`}, &op, 1_000_000)
			if v.res == "" || v.capped {
				fmt.Printf("opscheck: kind %d (%s): empty or capped result %q\n", k, opNames[k], v.res)
				os.Exit(2)
			}
		}
		fmt.Printf("opscheck: %d operation kinds implemented\n", nOpKinds)
	case "roundtrip":
		// every generated scenario must execute identically from its run file (JSON round trip)
		fs := flag.NewFlagSet("roundtrip", flag.ExitOnError)
		prop := fs.String("prop", "C14", "")
		seed := fs.Uint64("seed", 1, "")
		n := fs.Int("n", 50, "")
		tier := fs.String("tier", "quick", "")
		fs.Parse(os.Args[2:])
		bad := 0
		for k := 0; k < *n; k++ {
			sc := genFor(*prop, mix64(*seed, uint64(k)), *tier)
			if sc == nil {
				continue
			}
			r1 := execFor(sc, runOpts{})
			b, _ := json.Marshal(sc)
			var sc2 Scenario
			if err := json.Unmarshal(b, &sc2); err != nil {
				fmt.Println("unmarshal:", err)
				bad++
				continue
			}
			r2 := execFor(&sc2, runOpts{})
			if r1.Hash != r2.Hash || r1.Steps != r2.Steps || len(r1.Violations) != len(r2.Violations) {
				fmt.Printf("ROUNDTRIP-DIFF property=%s run-seed=%d hash %x/%x steps %d/%d\n", *prop, sc.Seed, r1.Hash, r2.Hash, r1.Steps, r2.Steps)
				bad++
			}
		}
		fmt.Printf("roundtrip %s: %d scenarios, %d differ\n", *prop, *n, bad)
		if bad > 0 {
			os.Exit(3)
		}
	case "genmany":
		// print one generated scenario per line (one process, shared oracle caches): for inspecting generators
		fs := flag.NewFlagSet("genmany", flag.ExitOnError)
		prop := fs.String("prop", "C14", "")
		seed := fs.Uint64("seed", 1, "")
		n := fs.Int("n", 100, "")
		tier := fs.String("tier", "quick", "")
		mode := fs.String("mode", "", "only this mode")
		fs.Parse(os.Args[2:])
		for k := 0; k < *n; k++ {
			sc := genFor(*prop, mix64(*seed, uint64(k)), *tier)
			if sc == nil || (*mode != "" && sc.Mode != *mode) {
				continue
			}
			b, _ := json.Marshal(sc)
			fmt.Println(string(b))
		}
	case "gen":
		fs := flag.NewFlagSet("gen", flag.ExitOnError)
		prop := fs.String("prop", "C14", "")
		seed := fs.Uint64("seed", 1, "")
		tier := fs.String("tier", "quick", "")
		fs.Parse(os.Args[2:])
		sc := genFor(*prop, *seed, *tier)
		b, _ := json.MarshalIndent(sc, "", " ")
		fmt.Println(string(b))
	default:
		fmt.Fprintln(os.Stderr, "unknown command")
		os.Exit(2)
	}
}

func flavour() string {
	if vsim.RaceEnabled {
		return "race"
	}
	return "plain"
}

func workerMain(args []string) {
	fs := flag.NewFlagSet("worker", flag.ExitOnError)
	prop := fs.String("prop", "C14", "")
	seed := fs.Uint64("seed", 1, "VERIF_SEED")
	widx := fs.Int("worker", 0, "")
	budget := fs.Float64("budget", 30, "seconds")
	maxRuns := fs.Int64("maxruns", 0, "stop after this many runs (0: budget only)")
	out := fs.String("out", ".", "")
	tier := fs.String("tier", "quick", "")
	maxFail := fs.Int("maxfail", 2, "")
	startRun := fs.Int64("start", 0, "first run index")
	fs.Parse(args)

	start := time.Now()
	wo := &workerOut{Prop: *prop, Flavour: flavour(), Seed: *seed, Worker: *widx, Stats: map[string]int64{}, Probes: map[string]int64{}, Modes: map[string]int64{}, Stops: map[string]int64{}}
	ih := map[uint64]bool{}
	nt := map[uint64]bool{}
	pairs := map[uint64]bool{}
	agg := uint64(14695981039346656037)
	base := mix64(mix64(*seed, propNum(*prop)), uint64(*widx)+1)
	fmt.Fprintf(os.Stderr, "worker %d: VERIF_SEED=%d property=%s flavour=%s base=%d\n", *widx, *seed, *prop, flavour(), base)
	for k := *startRun; ; k++ {
		if *maxRuns > 0 && k-*startRun >= *maxRuns {
			break
		}
		if time.Since(start).Seconds() > *budget {
			break
		}
		runSeed := mix64(base, uint64(k))
		sc := genFor(*prop, runSeed, *tier)
		if sc == nil || (sc.Prop != "C13" && sc.nops() == 0) {
			wo.Probes["empty_scenario_skipped"]++
			continue
		}
		rr := execFor(sc, runOpts{})
		wo.Runs++
		wo.Ops += int64(sc.nops())
		wo.Steps += rr.Steps
		wo.VtimeNs += float64(rr.Vnow)
		addStats(wo.Stats, rr.St)
		for k2, v := range rr.Probes {
			wo.Probes[k2] += v
		}
		wo.Modes[sc.Mode]++
		wo.Stops[stopNames[rr.Stop]]++
		wo.Exhaustive += rr.Probes["exhaustive_case"]
		ih[rr.IHash] = true
		if len(rr.NTHashes) > 0 {
			for _, h := range rr.NTHashes {
				nt[h] = true
			}
		} else if rr.Probes["nontrivial"] > 0 {
			nt[rr.IHash^mix64(rr.Hash, 7)] = true
		}
		for _, pr := range rr.Pairs {
			pairs[pr] = true
		}
		agg = (agg ^ rr.Hash) * 1099511628211
		if len(wo.Samples) < 2 && sc.nops() > 0 {
			b, _ := json.Marshal(sc)
			if len(b) < 20000 {
				wo.Samples = append(wo.Samples, b)
			}
		}
		if len(rr.Violations) > 0 {
			v := rr.Violations[0]
			sc.Expect = &v
			name := filepath.Join(*out, fmt.Sprintf("fail-%s-%d-%d.json", flavour(), *widx, k))
			sc.save(name)
			wo.Failures = append(wo.Failures, name)
			wo.FailClass = append(wo.FailClass, v.Class)
			fmt.Fprintf(os.Stderr, "worker %d run %d seed %d: %s: %s\n", *widx, k, runSeed, v.Class, clip(v.Detail))
			if len(wo.Failures) >= *maxFail {
				break
			}
		}
	}
	wo.WallS = time.Since(start).Seconds()
	wo.AggHash = fmt.Sprintf("%016x", agg)
	wo.OracleHit, wo.OracleMiss = oracleHits, oracleMiss
	for h := range ih {
		wo.IHashes = append(wo.IHashes, fmt.Sprintf("%x", h))
	}
	for h := range nt {
		wo.NonTrivial = append(wo.NonTrivial, fmt.Sprintf("%x", h))
	}
	for h := range pairs {
		wo.Pairs = append(wo.Pairs, fmt.Sprintf("%x", h))
	}
	sort.Strings(wo.IHashes)
	sort.Strings(wo.NonTrivial)
	sort.Strings(wo.Pairs)
	b, _ := json.Marshal(wo)
	if err := os.WriteFile(filepath.Join(*out, fmt.Sprintf("worker-%s-%d.json", flavour(), *widx)), b, 0644); err != nil {
		fmt.Fprintln(os.Stderr, err)
		os.Exit(2)
	}
}

// exec: run one file.  Exit 0: no violation; 3: violation(s), printed as JSON lines.
func execMain(args []string) {
	fs := flag.NewFlagSet("exec", flag.ExitOnError)
	trace := fs.String("trace", "", "write the event log (task, site, vnow at every yield) to this file")
	verbose := fs.Bool("v", false, "")
	fs.Parse(args)
	if fs.NArg() != 1 {
		fmt.Fprintln(os.Stderr, "usage: simharness exec [-trace out] [-v] FILE")
		os.Exit(2)
	}
	sc, err := loadScenario(fs.Arg(0))
	if err != nil {
		fmt.Fprintln(os.Stderr, err)
		os.Exit(2)
	}
	rr := execFor(sc, runOpts{trace: *trace != "", verbose: *verbose})
	if *trace != "" {
		var sb strings.Builder
		fmt.Fprintf(&sb, "seed %d sched_seed %d hash %016x ihash %016x steps %d vnow %d stop %d\n", sc.Seed, sc.SchedSeed, rr.Hash, rr.IHash, rr.Steps, rr.Vnow, rr.Stop)
		for i := 0; i+2 < len(rr.Trace); i += 3 {
			fmt.Fprintf(&sb, "%d %d %d\n", rr.Trace[i], rr.Trace[i+1], rr.Trace[i+2])
		}
		for c := range rr.Records {
			for i := range rr.Records[c] {
				r := rr.Records[c][i]
				fmt.Fprintf(&sb, "rec %d %d %d %d %d %d %x\n", c, i, r.T0, r.T1, r.S0, r.S1, mixStr(r.Got))
			}
		}
		os.WriteFile(*trace, []byte(sb.String()), 0644)
	}
	fmt.Printf("RUN property=%s seed=%d hash=%016x ihash=%016x steps=%d vnow=%v stop=%s switches=%d violations=%d\n", sc.Prop, sc.Seed, rr.Hash, rr.IHash, rr.Steps, time.Duration(rr.Vnow), stopNames[rr.Stop], rr.St.Switches, len(rr.Violations))
	if *verbose {
		for c := range rr.Records {
			for i := range rr.Records[c] {
				r := rr.Records[c][i]
				op := sc.Clients[c].Ops[i]
				fmt.Printf("  client %d op %d %-28s t0=%v lat=%v steps=%d got=%s\n", c, i, opNames[op.Kind], time.Duration(r.T0), time.Duration(r.T1-r.T0), r.S1-r.S0, clip(r.Got))
			}
		}
	}
	for _, v := range rr.Violations {
		b, _ := json.Marshal(v)
		fmt.Printf("VIOLATED %s\n", b)
	}
	if len(rr.Violations) > 0 {
		os.Exit(3)
	}
}

func mixStr(s string) uint64 {
	h := uint64(14695981039346656037)
	for i := 0; i < len(s); i++ {
		h = (h ^ uint64(s[i])) * 1099511628211
	}
	return h
}
