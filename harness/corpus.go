package main

import "strings"

// Option bits (mirrors regexp2.RegexOptions; checked at start-up in main).
const (
	oI   = 0x0001
	oM   = 0x0002
	oN   = 0x0004
	oS   = 0x0010
	oX   = 0x0020
	oRTL = 0x0040
	oE   = 0x0100
	oRE2 = 0x0200
	oU   = 0x0400
)

type pat struct {
	Pat   string
	Opts  int
	Frags []string // pieces inputs are assembled from (parts of matches and near misses)
	Tags  string
}

// Curated patterns: every interpreter state the anchors of C11/C12 name.
var corpus = []pat{
	{`(\w+)\s(\w+)`, 0, []string{"hello", " ", "world", "foo", "  ", "é", "日本", "_x1", "\n", "-"}, "captures"},
	{`(a+)+b`, 0, []string{"a", "aa", "b", "ab", "c", "aaab"}, "nestedloop"},
	{`(?<o>\()+[^()]*(?<c-o>\))+(?(o)(?!))`, 0, []string{"(", ")", "a", "(a)", "((b))", "x "}, "balancing cond"},
	{`(?<open>\[)(?:[^\[\]]|(?<open>\[)|(?<close-open>\]))*(?(open)(?!))\]?`, 0, []string{"[", "]", "a", "[a]", "[[b]c]", " "}, "balancing"},
	{`[a-z]+(\d)*`, oI, []string{"abc", "DEF", "12", "3", " ", "x9", "É", "K"}, "ignorecase loopcapture"},
	{`(?:(a)|b)+c?`, 0, []string{"a", "b", "c", "ab", "d", "bbac"}, "alt-capture-in-loop"},
	{`b+(a)`, oRTL, []string{"b", "a", "bba", "ab", "c"}, "rtl"},
	{`(?<=(x))y+?z`, 0, []string{"x", "y", "z", "xyz", "xyyz", "yz", "q"}, "lookbehind lazy"},
	{`(é|日)+(?=本)`, 0, []string{"é", "日", "本", "語", "a", "日本"}, "multibyte lookahead"},
	{`(?:x|y|z)*w`, 0, []string{"x", "y", "z", "w", "xyz", "v"}, "alternation loop"},
	{`((a)|(b))*\1`, 0, []string{"a", "b", "ab", "ba", "c", "aa"}, "backref"},
	{`^(?:(\w+)\s*)+$`, oM, []string{"foo", " ", "bar", "\n", "12", "  ", "-", "baz"}, "multiline anchors"},
	{`(a*)*$`, 0, []string{"a", "aa", "b", "!", ""}, "empty-loop"},
	{`\bfoo(\d+)?\b`, oRE2, []string{"foo", "12", " ", "foo7", "bar", "foofoo", "_"}, "re2 boundary"},
	{`(?>a+)(b)?`, 0, []string{"a", "b", "aab", "c", "ab"}, "atomic"},
	{`(?i)straße|STRASSE|ſ`, 0, []string{"straße", "STRASSE", "ſ", "Strasse", "s", " "}, "inline-ignorecase unicode"},
	{`(\d{1,3})(?:,(\d{3}))*(?:\.(\d+))?`, 0, []string{"1", "23", ",", "456", ".", "7", "x", "1,234.5"}, "counted"},
	{`(?<year>\d{4})-(?<mon>\d\d)-(?<day>\d\d)`, 0, []string{"2024", "-", "01", "31", "x", "1999-12-31", " "}, "named"},
	{`(?<a>x)(?<3>y)(z)`, 0, []string{"x", "y", "z", "xyz", "xy", "w"}, "sparse-numbers"},
	{`(a)(?:b)(c)|(d)`, oN, []string{"a", "b", "c", "d", "abc", "e"}, "explicitcapture"},
	{`a.c`, oS, []string{"a", "c", "\n", "b", "abc", "a\nc"}, "singleline"},
	{`(?x) a \s b # comment`, 0, []string{"a", " ", "b", "a b", "ab", "\t"}, "ignorewhitespace"},
	{`(\w)\1`, oI, []string{"a", "A", "b", "aA", "Bb", "c", "é", "É"}, "backref ignorecase"},
	{`(?:(?:a|b)|(?:c|d))+?e`, 0, []string{"a", "b", "c", "d", "e", "f"}, "lazy alt"},
	{`(a|ab)(c|bcd)(d*)`, 0, []string{"a", "ab", "c", "bcd", "d", "abcd", "x"}, "backtracking captures"},
	{`^(?!.*bad)(\w+)$`, oM, []string{"good", "bad", "\n", "x", " ", "word"}, "neg lookahead"},
	{`(?<!\$)\b(\d+)\b`, 0, []string{"$", "12", " ", "x", "$5", "77"}, "neg lookbehind"},
	{`([^,]*),?`, 0, []string{"a", ",", "bc", "", " ", ",,"}, "empty matches"},
	{``, 0, []string{"a", "b", "é", ""}, "empty pattern"},
	{`\G\d`, 0, []string{"1", "2", "a", "34", " "}, "G anchor"},
	{`x*`, 0, []string{"x", "y", "xx", "é", ""}, "star empty"},
	{`(?:a{2,4}?){1,3}b`, 0, []string{"a", "aa", "b", "aaab", "c"}, "counted lazy nested"},
	{`(\p{Lu}\p{Ll}+)\s?`, 0, []string{"Hello", " ", "World", "ÉCOLE", "École", "x", "Ω", "ωmega"}, "unicode classes"},
	{`[\w-[aeiou]]+`, 0, []string{"hello", "xyz", " ", "aei", "bcd", "É"}, "class subtraction"},
	{`(foo|foobar|fo)(?:bar)?(baz)?`, 0, []string{"foo", "bar", "baz", "fo", "foobar", "x"}, "literal alts prefix"},
	{`(?:ab|cd)+(?<last>[xyz])$`, oRTL, []string{"ab", "cd", "x", "y", "q", "abx"}, "rtl named"},
	{`(?s)(.*?)(\d+)(.*)`, 0, []string{"abc", "12", "\n", "x", "7", " "}, "lazy dot"},
	{`(?m)^(\s*)(\S.*?)\s*$`, 0, []string{"  ", "text", "\n", "more text ", "\t", "é"}, "multiline lazy"},
	{`(a)?(?(1)b|c)d`, 0, []string{"a", "b", "c", "d", "abd", "cd", "ad"}, "conditional"},
	{`日|\x41+|\cJ`, oE, []string{"日", "A", "AA", "\n", "b"}, "ecma escapes"},
	{`(?:(?:(?:(?:a)*b)*c)*d)*e`, 0, []string{"a", "b", "c", "d", "e", "abcde", "f"}, "deep nesting"},
	{`(x+x+)+y`, 0, []string{"x", "xx", "y", "z", "xxy"}, "catastrophic-small"},
	{`(?i)[k-s]+|K`, 0, []string{"k", "K", "K", "s", "ſ", "z", "S"}, "ignorecase kelvin"},
	{`(a)|(b)|(c)|(d)|(e)|(f)|(g)|(h)|(i)|(j)|(k)`, 0, []string{"a", "e", "k", "z", "j", "b"}, "many groups"},
	{`^.*$`, oM | oRE2, []string{"a", "\n", "bb", "\r", "é"}, "re2 multiline"},
	{`(\w+)\s(\d+)`, oU | oI, []string{"abc", " ", "12", "ÉÉ", "٣٤", "K", "x"}, "unicode option"},
	{`(a|b)\1+c?`, oE, []string{"a", "b", "aa", "bb", "c", "ab"}, "ecma backreference"},
	{`(?P<word>\w+)-(?P<num>\d+)`, oRE2, []string{"ab", "-", "12", "x-7", " ", "é"}, "re2 named"},
	{`(?<a>x)|(?<b>y)`, oN | oRTL, []string{"x", "y", "xy", "z"}, "explicitcapture rtl"},
	// alternations of literals (with OptionIsCodeGen the candidate search looks for the leading strings)
	{`(?:at|tiger|elephants|otter|inn|sea)=(\d+)`, 0, []string{"at=1", "sea=22", "tiger=3 ", "otter", "=4", " inn=5", "x"}, "leading strings"},
	{`(?:foo|bar|bazz)\w*`, 0, []string{"foo", "bar1", "bazz_", "ba", " ", "fo", "xbar"}, "leading strings short"},
	// anchors and start positions: \G chains, \A, \z, \Z, end anchors right-to-left
	{`\G(\d)`, 0, []string{"1", "2", "a", "12", " 3", "é"}, "G anchor"},
	{`\A(\w+)|(\d+)\z`, 0, []string{"ab", "12", " ", "x9", "\n", "é"}, "A and z anchors"},
	{`(\w+)\Z`, oRTL, []string{"ab", "12", " ", "\n", "é", "b\n"}, "Z anchor rtl"},
	{`\Gab|cd$`, oRTL | oM, []string{"ab", "cd", "\n", "abab", "x"}, "G and multiline end rtl"},
	// sparse explicit group numbers with groups that take part in some matches only
	{`(?<5>[a-z]+)?(\d)`, 0, []string{"ab", "7", "...", "x9", " ", "12"}, "sparse optional group"},
	{`(?<7>a)|(?<3>b)(c)?`, 0, []string{"a", "b", "bc", "c", "ab", " "}, "sparse alternation groups"},
	// empty matches: every multi-match entry point has to bump along, also over multi-byte runes and right to left
	{`a*`, 0, []string{"a", "b", "aa", "é", "日", "ba"}, "empty matches"},
	{`\b|(\d)`, 0, []string{"ab", " ", "1", "é1", "-", "日 2"}, "empty matches boundary"},
	{`(x*?)`, oRTL, []string{"x", "y", "xx", "é", "yx"}, "empty matches rtl lazy"},
	// literal prefixes with non-ASCII runes (Boyer-Moore tables beyond the ASCII page), also case-insensitive and right-to-left
	{`日本語(\d+)`, 0, []string{"日本語", "日本語12", "日本", "12", "語", " ", "本語日本語7"}, "nonascii prefix"},
	{`wörld-(\w+)`, oI, []string{"wörld-", "WÖRLD-x", "wor", "ld-", "é", " ", "world-"}, "nonascii prefix ignorecase"},
	{`(ß+)\s?Ünïcödé`, oRTL, []string{"Ünïcödé", "ß", " ", "Unicode", "ï", "ßß Ünïcödé"}, "nonascii prefix rtl"},
}

// Catastrophic (pattern, input) families for timed operations.  Heavy at one
// start position (interpreter-loop deadline check) or across many start
// positions (scan-loop check).
type catFam struct {
	Pat   string
	Opts  int
	In    InputSpec
	Kind  string
	Probe string // optional: a short input the pattern matches (for the quick calls that follow an aborted one)
}

var catastrophic = []catFam{
	{`(a+)+$`, 0, InputSpec{Unit: "a", Rep: 44, Suf: "!"}, "one-start", ""},
	{`(a|aa)+$`, 0, InputSpec{Unit: "a", Rep: 60, Suf: "!"}, "one-start", ""},
	{`^(\w+\s?)*$`, 0, InputSpec{Unit: "word ", Rep: 30, Suf: "!"}, "one-start", ""},
	{`(x+x+)+y`, 0, InputSpec{Unit: "x", Rep: 48}, "many-starts", ""},
	{`(?:a*)*b|(?:a*a*a*a*a*a*a*a*c)`, 0, InputSpec{Unit: "a", Rep: 400}, "many-starts", ""},
	{`(.*?,){12}P`, 0, InputSpec{Unit: "1,2,3,4,5,", Rep: 12}, "many-starts", ""},
	// cheap at every start position, quadratic over all of them: only a deadline that covers the whole
	// call (not one attempt) fires
	{`(\w+)\s*=`, 0, InputSpec{Unit: "ab", Rep: 160}, "quadratic-scan", ""},
	{`=\s*(\w+)`, oRTL, InputSpec{Unit: "ba", Rep: 160}, "quadratic-scan", ""},
	{`(\w+)\s*=`, oI, InputSpec{Unit: "aB", Rep: 170}, "quadratic-scan", ""},
	// catastrophic inside a lookbehind (the interpreter runs right-to-left there), behind a leading set
	{`\w+(?<=^\d(?:\w|\w\w)*)`, 0, InputSpec{Unit: "a", Rep: 30}, "lookbehind", "1ab2 x"},
	{`[a-z]+(?<=^\d(?:[a-z]|[a-z][a-z])*)\d`, 0, InputSpec{Unit: "ab", Rep: 16}, "lookbehind", "ab1"},
	// cheap matches first (in scan direction), then the blow-up: a multi-match call is abandoned after it
	// has produced part of its result
	{`x|(a+)+$`, 0, InputSpec{Pre: "1 x 2 x ", Unit: "a", Rep: 44, Suf: "!"}, "late-blowup", "1 x 2 x 3"},
	{`x|q(a+)+`, oRTL, InputSpec{Pre: "z", Unit: "a", Rep: 44, Suf: " x mid x tail"}, "late-blowup", "1 x 2 x 3"},
	{`\d|(?:a*)*b`, 0, InputSpec{Pre: "1 2 3 ", Unit: "a", Rep: 400}, "late-blowup", "4 ab 5"},
	// the blow-up is in the LAST continuation scan, which starts where the input stops (a lookbehind, or a
	// lookahead of a right-to-left pattern, walks back over everything)
	{`x+|(?<=y(x+)+)`, 0, InputSpec{Pre: "z", Unit: "x", Rep: 40}, "tail-blowup", "yxx"},
	{`x+|(?=(x+)+y)`, oRTL, InputSpec{Unit: "x", Rep: 40, Suf: "z"}, "tail-blowup", "xxy"},
	{`\w+|(?<=^#(?:\w|\w\w)*)`, 0, InputSpec{Pre: "-", Unit: "ab", Rep: 24}, "tail-blowup", "#ab"},
}

// Stack-hungry (pattern, input) families under a backtracking stack limit, with cheap matches before the
// overflow (in scan direction): a multi-match call is abandoned by the limit after part of its result exists.
type limFam struct {
	Pat   string
	Opts  int
	Limit int
	In    InputSpec
	Probe []string
}

var lateLimit = []limFam{
	{`x|(a|b)*!`, oRTL, 2000, InputSpec{Pre: "head ", Unit: "a", Rep: 3000, Suf: "! mid x tail"}, []string{"1 x 2", "ab! x", "x"}},
	{`x|(a|b)*!`, 0, 2000, InputSpec{Pre: "1 x mid ", Unit: "ab", Rep: 1500, Suf: "! tail"}, []string{"1 x 2", "ab! x", "x"}},
	{`\d+|(?:\w\s?)*?\.`, 0, 800, InputSpec{Pre: "12 34 ", Unit: "ab ", Rep: 600, Suf: "."}, []string{"1 a. 2", "7"}},
	{`(?<n>\d)|(?:[a-c]|,)*;`, oRTL, 500, InputSpec{Pre: "q", Unit: "a,", Rep: 800, Suf: "; 5 6"}, []string{"1 a; 2", "7 8 9"}},
}

// Quick (pattern, input) pairs for timed operations that finish well inside any deadline.
var quickTimed = []catFam{
	{`(\w+)\s(\w+)`, 0, lit("hello world"), "quick", ""},
	{`\d+`, 0, lit("abc 123 def"), "quick", ""},
	{`(a+)+$`, 0, lit("aaaa"), "quick", ""},
	{`foo(bar)?`, oI, lit("xx FOOBAR yy"), "quick", ""},
	{`(?<=x)y`, 0, lit("aaxyb"), "quick", ""},
	// several matches: the scans that continue after the first match are timed, too
	{`\d+`, 0, lit("1 22 333 4 55 666 7 88 999 0"), "quick-multi", ""},
	{`(\w+)\s(\w+)`, 0, lit("aa bb cc dd ee ff gg hh"), "quick-multi", ""},
	{`[a-z]`, oI, lit("aBcDeFgHiJkLmN"), "quick-multi", ""},
	{`x*`, 0, lit("xxaxxbxx"), "quick-multi", ""},
}

// Replacement strings: more than any per-Regexp cache size used.
var repls = []string{"$2 $1", "<$0>", "${1}x", "$$", "[$&]", "$`|$'", "$+", "$_", "-", "$1$1", "q$2", "${c}", "\\$1", "a$0b$0", "$3",
	"z", "", "${year}/${day}", "$10", "${open}", "é$1日", "$1-$2-$3", "${last}!", "<<$'>>", "x$0y$1z$2", "$0$0$0", "${0}", "$999", "$-", "${a}${3}",
	// these two do not parse ("capture group number out of range"): a failed call that must stay a failed call
	"$99999999999999999999", "a${2147483648}",
	// the portions of the input around the match (per-call values next to a cached, shared parse of the string)
	"[$`]", "($')", "<$1:$_>", "a$_b$0c$_d$1e", "$+$`", "x$'y$`z"}

// indices of the replacement strings that use $` $' $_ $+
var replSpecial = func() []int {
	var out []int
	for i, s := range repls {
		if strings.Contains(s, "$`") || strings.Contains(s, "$'") || strings.Contains(s, "$_") || strings.Contains(s, "$+") {
			out = append(out, i)
		}
	}
	return out
}()

// replHot is the handful of replacement strings one scenario keeps coming back to (cache hits, evictions and
// re-insertions need repeats); set by the generators, empty means "draw from all".
var replHot []int

func pickRepl(r *rng) string {
	if len(replHot) > 0 && r.chance(3, 5) {
		return repls[replHot[r.n(len(replHot))]]
	}
	return repls[r.n(len(repls))]
}

func setReplHot(r *rng) {
	replHot = replHot[:0]
	for k := 2 + r.n(5); k > 0; k-- {
		replHot = append(replHot, r.n(len(repls)))
	}
	if r.chance(1, 2) {
		replHot[0] = replSpecial[r.n(len(replSpecial))]
	}
}

// Units for long inputs; lengths cross the 1K/4K/16K rune-buffer classes and the 4K/16K byte-buffer classes.
var longUnits = []string{"hello wörld ", "ab(c) ", "x", "日本", "a", "foo12 ", "aab", "1,234.5 ", "[[b]c]", "Hello World "}
var longLens = []int{900, 1020, 1030, 2500, 4090, 4100, 9000, 16380, 16400, 20000} // bytes, approximate
