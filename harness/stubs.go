package main

func genC11(seed uint64, tier string) *Scenario  { return nil }
func genC12(seed uint64, tier string) *Scenario  { return nil }
func genC13(seed uint64, tier string) *Scenario  { return nil }
func runC13(sc *Scenario, ro runOpts) *runResult { return &runResult{Probes: map[string]int64{}} }
