package main

import (
	"fmt"
	"strings"
	"time"
	"unicode/utf8"

	"github.com/dlclark/regexp2/v2/vsim"
)

const scriptOpCap = 600_000

// genInput assembles a pattern-directed input: a few fragments of the pattern's
// alphabet, sometimes blown up to straddle a pool size class.
func genInput(r *rng, p *pat, allowLong bool) InputSpec {
	fr := p.Frags
	pick := func() string { return fr[r.n(len(fr))] }
	var s string
	var cuts []int // fragment boundaries
	for k := r.n(9); k > 0; k-- {
		cuts = append(cuts, len(s))
		s += pick()
	}
	cuts = append(cuts, len(s))
	if allowLong && r.chance(1, 7) {
		unit := pick()
		if r.chance(1, 2) || unit == "" {
			unit = longUnits[r.n(len(longUnits))]
		}
		target := longLens[r.n(len(longLens))]
		if r.chance(2, 3) {
			target = longLens[r.n(6)] // mostly the smaller classes
		}
		rep := target / len(unit)
		if rep < 1 {
			rep = 1
		}
		return InputSpec{Pre: s, Unit: unit, Rep: rep, Suf: pick()}
	}
	if r.chance(1, 9) {
		// invalid UTF-8 (one byte wide, decodes to U+FFFD), the real U+FFFD (three bytes), a truncated
		// sequence, a non-BMP rune: anywhere, so that captures behind it have shifted byte offsets
		bad := []string{"\xff", "\uFFFD", "\xf0\x9f", "\xc3", "\U0001F600", "\xff\uFFFD"}[r.n(6)]
		at := cuts[r.n(len(cuts))]
		s = s[:at] + bad + s[at:]
	}
	return InputSpec{Pre: s}
}

func alphabetOf(sc *Scenario) []rune {
	seen := map[rune]bool{}
	var out []rune
	add := func(s string) {
		for _, c := range s {
			if c == utf8.RuneError {
				continue
			}
			if !seen[c] && len(out) < 48 {
				seen[c] = true
				out = append(out, c)
			}
		}
	}
	for _, cl := range sc.Clients {
		for _, o := range cl.Ops {
			add(o.In.Pre)
			add(o.In.Unit)
			add(o.In.Suf)
			add(o.In2.Pre)
		}
	}
	if len(out) == 0 {
		out = []rune{'a'}
	}
	return out
}

var findKinds = []int{OpMatchString, OpMatchRunes, OpFindString, OpFindRunes, OpFindStringAt, OpFindRunesAt, OpFindAllString, OpFindAllRunes,
	OpReplace, OpReplace, OpReplaceFunc, OpSplit, OpWalk2, OpCompatMatch, OpCompatSubmatchIndex, OpCompatAllSubmatch, OpCompatAllIndex, OpCompatReader, OpGroupInfo, OpReplaceAt,
	OpFindString, OpMatchString, OpFindAllString, OpReplace, OpSplit, OpFindRunes, OpMarshalRoundTrip, OpReplaceFuncReentrant, OpWalkMixed, OpWalkMixed, OpReplaceFuncPanic}

// multi-match calls (they hold a partial result when a later scan is abandoned)
var multiKinds = []int{OpReplace, OpReplace, OpReplace, OpReplaceFunc, OpReplaceFuncReentrant, OpSplit, OpFindAllString, OpFindAllRunes, OpCompatAllIndex, OpFindString}

// randSpec draws a corpus pattern with randomised tuning knobs.
func randSpec(r *rng, knobs bool) (ReSpec, *pat) {
	p := &corpus[r.n(len(corpus))]
	s := ReSpec{Pat: p.Pat, Opts: p.Opts}
	if knobs {
		applyKnobs(r, &s)
		if r.chance(1, 5) {
			s.HasLimit = true
			s.Limit = []int{0, 1, 8, 20, 40, 64, 65, 100, 200, 1000}[r.n(10)]
		}
	}
	return s, p
}

// applyKnobs randomises the tuning options of a spec (cache and buffer sizes incl. disabled and unlimited, bitmap).
func applyKnobs(r *rng, s *ReSpec) {
	switch r.n(6) {
	case 0:
		s.Cache = 1
	case 1:
		s.Cache = 2
	case 2:
		s.Cache = 3
	case 3:
		s.Cache = -9
	}
	if r.chance(1, 5) {
		s.CacheB = []int{-9, 3, 8, -1}[r.n(4)]
	}
	if r.chance(1, 4) {
		s.RuneBuf = []int{-9, 1 << 10, 4 << 10, -1, -7}[r.n(5)]
	}
	if r.chance(1, 4) {
		s.ReplBuf = []int{-9, 4 << 10, 16 << 10, -1, -7}[r.n(5)]
	}
	if r.chance(1, 6) {
		s.NoBitmap = true
	}
	if r.chance(1, 5) {
		s.CodeGen = true
	}
}

// genOp draws one ordinary (untimed) operation on spec index re.
func genOp(r *rng, re int, p *pat, allowLong bool) Op {
	op := Op{Kind: findKinds[r.n(len(findKinds))], Re: re, In: genInput(r, p, allowLong), N: []int{-1, -1, -1, 1, 2, 3, 0}[r.n(7)], TimeoutNs: -1}
	switch op.Kind {
	case OpReplace, OpReplaceAt:
		op.Repl = pickRepl(r)
		if op.N == 0 {
			op.N = -1
		}
	case OpReplaceFuncReentrant:
		op.Repl = pickRepl(r)
		op.In2 = genInput(r, p, false)
	case OpReplaceFuncPanic:
		op.StartAt = r.n(3)
	case OpMarshalRoundTrip:
		op.Repl = pickRepl(r)
		op.StartAt = r.n(6)
	case OpWalkMixed:
		op.Repl = pickRepl(r)
		op.In2 = genInput(r, p, false)
		op.StartAt = r.n(4)
		op.N = r.n(2)
	case OpWalk2:
		op.In2 = genInput(r, p, false)
	case OpFindString, OpFindRunes, OpFindStringAt, OpFindRunesAt:
		op.Keep = r.chance(1, 3)
	}
	if op.Kind == OpFindStringAt || op.Kind == OpFindRunesAt || op.Kind == OpReplaceAt {
		n := len(op.In.Text())
		op.StartAt = r.n(n + 2) // may be out of range or inside a rune: the call must say so, identically
		if op.Kind == OpFindRunesAt {
			op.StartAt = r.n(len([]rune(op.In.Text())) + 1)
		}
		if op.Kind == OpReplaceAt && r.chance(1, 3) {
			op.StartAt = -1
		}
	}
	return op
}

// genC12LimitWindow: histories made of calls that grow the backtracking stack towards a limit chosen
// inside their growth window, repeated with varying input lengths and entry points, so that a call runs
// on an interpreter state whose stack an earlier call left partly or fully grown.
func genC12LimitWindow(seed uint64, r *rng) *Scenario {
	sc := &Scenario{Prop: "C12", Seed: seed, SchedSeed: mix64(seed, 12), OpStepCap: scriptOpCap, Mode: "limit-window", PeriodNs: int64(time.Millisecond)}
	cfg := vsim.Config{Policy: vsim.Fair, Quantum: 100 + r.i64(900), MaxSteps: 400_000_000, PoolMode: []int{vsim.PoolLIFO, vsim.PoolRandom, vsim.PoolFIFO}[r.n(3)], MissProb: uint32(r.n(150))}
	frags := []string{"a", "b", "c", "d", "ab", " ", ",", "a,", "abc", "ab ", "x"}
	cl := Client{Cost: int64(200 + r.n(800))}
	nre := 1 + r.n(2)
	type pr struct {
		op  Op
		rep int
	}
	var probes []pr
	for k := 0; k < nre; k++ {
		s := ReSpec{Pat: deepPats[r.n(len(deepPats))], HasLimit: true}
		if r.chance(1, 4) {
			p := &corpus[r.n(len(corpus))]
			s.Pat, s.Opts = p.Pat, p.Opts
		}
		found := false
		for try := 0; try < 5 && !found; try++ {
			probe := Op{Kind: OpFindString, In: InputSpec{Pre: frags[r.n(len(frags))], Unit: frags[r.n(len(frags))], Rep: (10 + r.n(60)) << uint(try), Suf: frags[r.n(len(frags))]}, N: -1, TimeoutNs: -1}
			ref := c13Reference(s, &probe, scriptOpCap)
			if ref.err != "" || ref.capped || ref.peak <= 64 {
				continue
			}
			s.Limit = ref.peak/2 + 1 + r.n(ref.peak/2)
			probe.Re = len(sc.Res)
			probes = append(probes, pr{probe, probe.In.Rep})
			found = true
		}
		if found {
			sc.Res = append(sc.Res, s)
		}
	}
	if len(probes) == 0 {
		return sc
	}
	// A predecessor abandoned by its deadline in the middle of the interpreter loop (stacks partly filled),
	// on the same limited Regexp: whatever it leaves on the reused stacks must not count against the limit
	// of the calls that follow.  Only for Regexps that have an input on which they are catastrophic.
	heavies := map[int]Op{}
	if r.chance(1, 2) {
		for k := range sc.Res {
			for try := 0; try < 3; try++ {
				u := []string{"a", "ab", "a ", "b", "abc"}[r.n(5)]
				h := Op{Kind: []int{OpMatchString, OpFindString, OpFindRunes}[r.n(3)], Re: k, In: InputSpec{Unit: u, Rep: 18 + r.n(20), Suf: []string{"!", "#", "!c", "\n!"}[r.n(4)]}, N: -1, Heavy: true}
				maxD := scriptOpCap*cl.Cost/4 - 3*sc.PeriodNs
				if maxD <= 2*sc.PeriodNs {
					break
				}
				h.TimeoutNs = 2*sc.PeriodNs + r.i64(min64(maxD-2*sc.PeriodNs, 40*sc.PeriodNs))
				if v := pristine(sc.Res[k], &h, scriptOpCap); v.capped {
					heavies[k] = h
					break
				}
			}
		}
	}
	kinds := []int{OpFindString, OpMatchString, OpFindAllString, OpReplace, OpFindRunes, OpMatchRunes, OpSplit, OpFindStringAt, OpCompatAllSubmatch}
	for n := 4 + r.n(14); n > 0; n-- {
		p := probes[r.n(len(probes))]
		op := p.op
		if h, ok := heavies[op.Re]; ok && r.chance(1, 3) {
			cl.Ops = append(cl.Ops, h)
		}
		op.Kind = kinds[r.n(len(kinds))]
		op.Repl = pickRepl(r)
		switch r.n(4) {
		case 0: // shorter
			op.In.Rep = 1 + r.n(p.rep)
		case 1: // a bit longer
			op.In.Rep = p.rep + r.n(p.rep/2+2)
		}
		if v := pristine(sc.Res[op.Re], &op, scriptOpCap); v.capped {
			continue
		}
		cl.Ops = append(cl.Ops, op)
	}
	sc.Clients = []Client{cl}
	cfg.Alphabet = alphabetOf(sc)
	sc.Cfg = cfg
	nameOps(sc)
	return sc
}

// Sibling families: Regexps that agree in everything a coarse cache key might look at (group count, options,
// pattern length, first characters) but differ in meaning, used with the same inputs and replacement strings.
var siblingFamilies = []struct {
	pats   []ReSpec
	inputs []string
	repls  []string
}{
	{[]ReSpec{{Pat: `(?<year>\d{4})-(?<mon>\d\d)`}, {Pat: `(?<mon>\d{2})/(?<year>\d\d)`}, {Pat: `(?<mon>\d{4})-(?<year>\d\d)`}},
		[]string{"2024-05 x 1999-12", "05/24 and 12/99", "2024-05", "no match", "12/99 2024-05-17"}, []string{"${year}", "y=${year};", "${mon}/${year}", "$1", "$2-$1", "${year}${year}"}},
	{[]ReSpec{{Pat: `(?<first>a)(b)`}, {Pat: `(?<first>a)(b)`, KeepOrder: true}, {Pat: `(a)(?<first>b)`}, {Pat: `(a)(?<first>b)`, KeepOrder: true}},
		[]string{"ab", "xabab", "ba ab", "", "aabb"}, []string{"<${first}>", "$1", "$2", "[$1$2]", "${first}$1"}},
	{[]ReSpec{{Pat: `(a)(b)`}, {Pat: `(?<3>a)(b)`}, {Pat: `(?<2>a)(b)`}, {Pat: `(a)(?<3>b)`}},
		[]string{"ab", "abab", "xaby", "b a", ""}, []string{"[$2]", "{$3}", "$1|$2|$3", "$2$2", "${3}"}},
	{[]ReSpec{{Pat: `(\w+)@(\w+)`}, {Pat: `(\w+)#(\w+)`}, {Pat: `(\w+)@(\d+)`}, {Pat: `(\w+)@(\w+)`, Opts: oRTL}},
		[]string{"bob@example", "amy#corp x@y", "id@42 a@b", "@", "bob@example amy#corp"}, []string{"$2:$1", "<$0>", "$1", "$2", "$1@$2"}},
	{[]ReSpec{{Pat: `(?<x>a+)(?<y>b+)`}, {Pat: `(?<y>a+)(?<x>b+)`}, {Pat: `(?<x>a+)(?<y>b*)`}, {Pat: `(?<x>a+)(?<y>b+)`, Opts: oI}},
		[]string{"aabb", "ab aaab", "AABB ab", "b", "aaa"}, []string{"${x}${y}", "${y}-${x}", "$1", "${x}", "y:${y}"}},
}

// genC12LongHistory: hundreds to thousands of cheap calls on one or two Regexps drawn from a pool of a
// dozen distinct calls -- what only goes wrong after many calls (a counter that wraps or saturates, a
// table rebuilt every N calls, a free list that grows) gets its N.
func genC12LongHistory(seed uint64, r *rng, tier string) *Scenario {
	sc := &Scenario{Prop: "C12", Seed: seed, SchedSeed: mix64(seed, 12), OpStepCap: scriptOpCap, Mode: "long-history", PeriodNs: int64(time.Millisecond)}
	cfg := vsim.Config{Policy: vsim.Fair, Quantum: 100 + r.i64(900), MaxSteps: 2_000_000_000, PoolMode: []int{vsim.PoolLIFO, vsim.PoolRandom}[r.n(2)], MissProb: uint32(r.n(100)), DropProb: uint32(r.n(50))}
	var pats []*pat
	for tries := 0; len(sc.Res) < 1+r.n(2) && tries < 10; tries++ {
		s, pp := randSpec(r, true)
		s.HasLimit, s.Limit = false, 0
		if v := pristine(s, &Op{Kind: OpGroupInfo}, scriptOpCap); len(v.res) > 8 && v.res[:8] == "COMPILE:" {
			continue
		}
		sc.Res = append(sc.Res, s)
		pats = append(pats, pp)
	}
	if len(sc.Res) == 0 {
		return sc
	}
	var pool []Op
	if r.chance(1, 2) {
		// many SCANS rather than many calls: multi-match calls of the kinds that recycle one match object
		// (bool-only, FindAll*, Replace) on an input with a thousand matches or more, so that 2^16 scans go
		// through one pooled runner within a few dozen calls
		sc.Mode = "long-history-scans"
		cfg.PoolMode, cfg.MissProb, cfg.DropProb = vsim.PoolLIFO, 0, 0
		sc.Res, pats = sc.Res[:1], pats[:1]
		var unit string
		for tries := 0; unit == "" && tries < 8; tries++ {
			if tries > 0 {
				s2, p2 := randSpec(r, true)
				s2.HasLimit, s2.Limit = false, 0
				if v := pristine(s2, &Op{Kind: OpGroupInfo}, scriptOpCap); len(v.res) > 8 && v.res[:8] == "COMPILE:" {
					continue
				}
				sc.Res[0], pats[0] = s2, p2
			}
			for _, f := range pats[0].Frags {
				if f == "" {
					continue
				}
				if v := pristine(sc.Res[0], &Op{Kind: OpMatchString, In: lit(f), N: -1, TimeoutNs: -1}, scriptOpCap); v.res == "true" {
					unit = f + " "
					break
				}
			}
		}
		if unit == "" {
			return sc
		}
		rep := 800 + r.n(1500)
		for rep > 60 {
			// the longest input whose multi-match calls stay inside the per-call step cap
			probe := Op{Kind: OpReplace, Re: 0, In: InputSpec{Unit: unit, Rep: rep}, N: -1, Repl: "<$0>", TimeoutNs: -1}
			if v := pristine(sc.Res[0], &probe, scriptOpCap); !v.capped && v.steps < scriptOpCap/3 {
				break
			}
			rep /= 2
		}
		long := InputSpec{Unit: unit, Rep: rep}
		cl := Client{Cost: int64(200 + r.n(300))}
		total := 0
		for total < 66000+r.n(3000) && len(cl.Ops) < 1500 {
			var op Op
			switch r.n(6) {
			case 0:
				op = Op{Kind: OpMatchString, Re: 0, In: lit(unit), N: -1, TimeoutNs: -1}
				total++
			case 1:
				op = Op{Kind: OpMatchString, Re: 0, In: lit("#"), N: -1, TimeoutNs: -1}
				total++
			case 2:
				op = Op{Kind: OpReplace, Re: 0, In: long, N: -1, Repl: pickRepl(r), TimeoutNs: -1}
				total += rep + 1
			default:
				op = Op{Kind: []int{OpFindAllString, OpFindAllRunes}[r.n(2)], Re: 0, In: long, N: -1, TimeoutNs: -1}
				total += rep + 1
			}
			if v := pristine(sc.Res[0], &op, scriptOpCap); v.capped {
				return sc
			}
			cl.Ops = append(cl.Ops, op)
		}
		// ... and then the calls a stale match object would show in
		for k := 0; k < 6; k++ {
			cl.Ops = append(cl.Ops, Op{Kind: []int{OpMatchString, OpFindAllString, OpReplace}[r.n(3)], Re: 0, In: lit([]string{unit, "#", unit + unit + "#", "# " + unit}[r.n(4)]), N: -1, Repl: pickRepl(r), TimeoutNs: -1})
		}
		sc.Clients = []Client{cl}
		cfg.Alphabet = alphabetOf(sc)
		sc.Cfg = cfg
		nameOps(sc)
		return sc
	}
	for k := 0; k < 40 && len(pool) < 12; k++ {
		re := r.n(len(sc.Res))
		op := genOp(r, re, pats[re], false)
		if v := pristine(sc.Res[re], &op, scriptOpCap); v.capped || v.steps > 4000 {
			continue
		}
		pool = append(pool, op)
	}
	if len(pool) == 0 {
		return sc
	}
	n := 300 + r.n(900)
	if tier == "thorough" {
		n = 300 + r.n(4000)
	}
	if r.chance(1, 3) {
		n = []int{255, 256, 257, 511, 513, 1023, 1025}[r.n(7)] + r.n(3)
	}
	cl := Client{Cost: int64(200 + r.n(300))}
	for ; n > 0; n-- {
		cl.Ops = append(cl.Ops, pool[r.n(len(pool))])
	}
	sc.Clients = []Client{cl}
	cfg.Alphabet = alphabetOf(sc)
	sc.Cfg = cfg
	nameOps(sc)
	return sc
}

// genC12Siblings: the same calls, with the same inputs and replacement strings, on several Regexps of one
// sibling family, and calls with inputs of equal length and equal first rune on one Regexp: whatever is
// remembered across calls must be keyed by everything the result depends on.
func genC12Siblings(seed uint64, r *rng) *Scenario {
	sc := &Scenario{Prop: "C12", Seed: seed, SchedSeed: mix64(seed, 12), OpStepCap: scriptOpCap, Mode: "siblings", PeriodNs: int64(time.Millisecond)}
	cfg := vsim.Config{Policy: vsim.Fair, Quantum: 100 + r.i64(900), MaxSteps: 400_000_000, PoolMode: []int{vsim.PoolLIFO, vsim.PoolRandom, vsim.PoolFIFO}[r.n(3)], MissProb: uint32(r.n(200))}
	fam := siblingFamilies[r.n(len(siblingFamilies))]
	for _, s := range fam.pats {
		if r.chance(3, 4) {
			if v := pristine(s, &Op{Kind: OpGroupInfo}, scriptOpCap); !(len(v.res) > 8 && v.res[:8] == "COMPILE:") {
				sc.Res = append(sc.Res, s)
			}
		}
	}
	if len(sc.Res) < 2 {
		return sc
	}
	kinds := []int{OpReplace, OpReplace, OpReplace, OpFindString, OpFindAllString, OpSplit, OpCompatAllSubmatch, OpReplaceFunc, OpMatchString, OpGroupInfo, OpCompatSubmatchIndex}
	cl := Client{Cost: int64(200 + r.n(800))}
	for n := 8 + r.n(24); n > 0; n-- {
		in := fam.inputs[r.n(len(fam.inputs))]
		if r.chance(1, 4) && len(in) > 1 {
			// same length, same first rune, different content
			b := []byte(in)
			k := 1 + r.n(len(b)-1)
			b[k] = "ab12-/@#x "[r.n(10)]
			in = string(b)
		}
		op := Op{Kind: kinds[r.n(len(kinds))], Re: r.n(len(sc.Res)), In: lit(in), N: -1, Repl: fam.repls[r.n(len(fam.repls))], TimeoutNs: -1}
		if v := pristine(sc.Res[op.Re], &op, scriptOpCap); v.capped {
			continue
		}
		cl.Ops = append(cl.Ops, op)
		if r.chance(1, 3) {
			// the same call on a sibling right away
			twin := op
			twin.Re = r.n(len(sc.Res))
			cl.Ops = append(cl.Ops, twin)
		}
	}
	sc.Clients = []Client{cl}
	cfg.Alphabet = alphabetOf(sc)
	sc.Cfg = cfg
	nameOps(sc)
	return sc
}

// genC12DeepStack: a call that grows the interpreter's stacks to tens of thousands of slots (a long input on a
// pattern whose backtracking depth grows with it), surrounded by ordinary calls on the same Regexp: whatever a
// runner does with very large stacks when it is recycled must not show in later calls.
func genC12DeepStack(seed uint64, r *rng) *Scenario {
	const deepCap = 12_000_000
	sc := &Scenario{Prop: "C12", Seed: seed, SchedSeed: mix64(seed, 12), OpStepCap: deepCap, Mode: "deep-stack", PeriodNs: int64(time.Millisecond)}
	cfg := vsim.Config{Policy: vsim.Fair, Quantum: 100 + r.i64(900), MaxSteps: 2_000_000_000, PoolMode: []int{vsim.PoolLIFO, vsim.PoolRandom, vsim.PoolLIFO}[r.n(3)], MissProb: uint32(r.n(100))}
	frags := []string{"a", "b", "ab", "ba", "abc", "a,", "ab "}
	// (pattern, unit, suffix): inputs that match at the first start position, so the call is linear in the
	// input while its backtracking stack grows with every iteration
	shapes := [][3]string{{`(?:(a)|b)*c`, "ab", "c"}, {`(?:ab|ba)*c`, "ab", "c"}, {`(a|b|c)*d`, "abc", "d"}, {`(?:(?:a|b)(?:b|c)?)*$`, "ab", ""},
		{`(a|ab|abc)*d`, "abc", "d"}, {`(\w+\s?)*$`, "ab ", ""}, {`(?:(a)|(b)|(c)|(ab))*$`, "abc", ""}, {`^(?:ab|b|c)*c`, "ab", ""}}
	sh := shapes[r.n(len(shapes))]
	s := ReSpec{Pat: sh[0]}
	if r.chance(1, 3) {
		s.HasLimit, s.Limit = true, -1
	}
	var deep Op
	found := false
	// The input length is drawn, not derived from the measured stack size: an edited tree may well change what
	// the stack-capacity observer reports (that is the kind of change this history is after).  With 2-13 slots
	// per iteration, 4k-130k iterations put the stack below, at and (for unlimited Regexps) beyond the default
	// limit of 100000 slots.  The longest input that fits the step cap is used.
	for rep := []int{2000, 4000, 8000, 16000, 32000, 64000, 128000}[r.n(7)] + r.n(500); rep >= 1000 && !found; rep /= 2 {
		probe := Op{Kind: OpFindString, In: InputSpec{Unit: sh[1], Rep: rep, Suf: sh[2]}, N: -1, TimeoutNs: -1}
		ref := c13Reference(s, &probe, deepCap)
		if ref.err != "" {
			break
		}
		if ref.capped {
			continue
		}
		deep, found = probe, true
		sc.Note = fmt.Sprintf("deep call: %d iterations, %d steps, backtracking stack of %d slots with the limit disabled (as reported by this tree)", rep, ref.steps, ref.peak)
	}
	if !found {
		return sc
	}
	sc.Res = []ReSpec{s}
	small := &pat{Frags: append(frags, "c", "d", "xxabcxx", "!")}
	cl := Client{Cost: int64(200 + r.n(800))}
	addSmall := func(n int) {
		for ; n > 0; n-- {
			op := genOp(r, 0, small, false)
			if v := pristine(s, &op, deepCap); !v.capped {
				cl.Ops = append(cl.Ops, op)
			}
		}
	}
	addSmall(r.n(3))
	rDeep := 0
	for k := 1 + r.n(2); k > 0; k-- {
		d := deep
		// (bool-only entry points run the capture-free program, whose stack may stay much smaller)
		d.Kind = []int{OpFindString, OpFindString, OpFindRunes, OpMatchString, OpFindAllString, OpReplace, OpSplit, OpReplaceFunc}[r.n(8)]
		d.Repl = pickRepl(r)
		if v := pristine(s, &d, deepCap); !v.capped {
			rDeep++
			cl.Ops = append(cl.Ops, d)
		}
		addSmall(1 + r.n(4))
	}
	if rDeep == 0 {
		return sc // no call of this history grows the stacks: nothing to learn
	}
	sc.Clients = []Client{cl}
	cfg.Alphabet = alphabetOf(sc)
	sc.Cfg = cfg
	nameOps(sc)
	return sc
}

// genC12 builds one call history for one client (DESIGN §3 C12).
func genC12(seed uint64, tier string) *Scenario {
	r := newRng(seed)
	setReplHot(r)
	if r.chance(1, 8) {
		return genC12LimitWindow(seed, r)
	}
	if r.chance(1, 12) {
		return genC12DeepStack(seed, r)
	}
	if r.chance(1, 10) {
		return genC12Siblings(seed, r)
	}
	if r.chance(1, 20) {
		return genC12LongHistory(seed, r, tier)
	}
	sc := &Scenario{Prop: "C12", Seed: seed, SchedSeed: mix64(seed, 12), OpStepCap: scriptOpCap}
	p := int64(time.Millisecond)
	sc.PeriodNs = p
	cost := int64(200 + r.n(1800))
	cfg := vsim.Config{Policy: vsim.Fair, Quantum: 100 + r.i64(900), MaxSteps: 400_000_000}
	faulty := r.chance(3, 4)
	if faulty {
		sc.Mode = "faults"
		cfg.PoolMode = vsim.PoolRandom
		cfg.MissProb = uint32(r.n(300))
		cfg.DropProb = uint32(r.n(150))
		cfg.ScribbleProb = uint32(200 + r.n(824))
	} else {
		sc.Mode = "faultfree"
		cfg.PoolMode = []int{vsim.PoolLIFO, vsim.PoolFIFO}[r.n(2)]
	}
	nre := 2 + r.n(3)
	pats := make([]*pat, 0, nre+2)
	var limitProbes []Op
	var limitProbeRe []int
	for tries := 0; len(sc.Res) < nre && tries < 20; tries++ {
		s, pp := randSpec(r, true)
		if !faulty {
			s.HasLimit, s.Limit = false, 0
		}
		if v := pristine(s, &Op{Kind: OpGroupInfo}, scriptOpCap); len(v.res) > 8 && v.res[:8] == "COMPILE:" {
			continue // does not compile on this tree: not a subject of this property
		}
		if s.HasLimit && r.chance(1, 2) {
			// a stack-hungry shape: the depth of the backtracking stack grows with the input
			pp = &pat{Pat: deepPats[r.n(len(deepPats))], Frags: []string{"a", "b", "c", "d", "ab", " ", ",", "a,", "abc"}, Tags: "deep"}
			s.Pat, s.Opts = pp.Pat, 0
		}
		if s.HasLimit && r.chance(2, 3) {
			// a limit inside the growth window of a typical call on this pattern, so that calls are
			// abandoned (or just survive) while the stack is being grown towards the limit
			for try := 0; try < 4; try++ {
				probe := Op{Kind: OpFindString, In: InputSpec{Pre: pp.Frags[r.n(len(pp.Frags))], Unit: pp.Frags[r.n(len(pp.Frags))], Rep: (20 + r.n(100)) << uint(try), Suf: pp.Frags[r.n(len(pp.Frags))]}, N: -1, TimeoutNs: -1}
				ref := c13Reference(s, &probe, scriptOpCap)
				if ref.err != "" || ref.capped || ref.peak <= 64 {
					continue // the stack never grows for this call: try a longer input
				}
				s.Limit = ref.peak/2 + 1 + r.n(ref.peak/2)
				limitProbes = append(limitProbes, probe)
				limitProbeRe = append(limitProbeRe, len(sc.Res))
				break
			}
		}
		sc.Res = append(sc.Res, s)
		pats = append(pats, pp)
	}
	if len(sc.Res) > 0 && r.chance(1, 4) {
		// the same pattern compiled twice with different options/knobs: state must not be shared through
		// anything keyed by the pattern text
		k := r.n(len(sc.Res))
		twin := sc.Res[k]
		switch r.n(4) {
		case 0:
			twin.Opts ^= oI
		case 1:
			twin.HasLimit, twin.Limit = !twin.HasLimit, 40+r.n(200)
		case 2:
			twin.Cache, twin.NoBitmap = 1, !twin.NoBitmap
		default:
			twin.Opts ^= oRE2 & 0 // identical twin
		}
		if !faulty {
			twin.HasLimit, twin.Limit = false, 0
		}
		if v := pristine(twin, &Op{Kind: OpGroupInfo}, scriptOpCap); !(len(v.res) > 8 && v.res[:8] == "COMPILE:") {
			sc.Res = append(sc.Res, twin)
			pats = append(pats, pats[k])
		}
	}
	nre = len(sc.Res)
	if nre == 0 {
		return sc
	}
	// a Regexp for aborted calls: the same Regexp serves catastrophic timed calls and quick ones
	var heavyRe = -1
	var heavyFam catFam
	if faulty && r.chance(2, 3) {
		heavyFam = catastrophic[r.n(len(catastrophic))]
		sc.Res = append(sc.Res, ReSpec{Pat: heavyFam.Pat, Opts: heavyFam.Opts})
		heavyRe = len(sc.Res) - 1
	}
	// a Regexp whose multi-match calls are abandoned by the stack limit after part of the result exists
	var limRe = -1
	var limF limFam
	if faulty && r.chance(1, 3) {
		limF = lateLimit[r.n(len(lateLimit))]
		sc.Res = append(sc.Res, ReSpec{Pat: limF.Pat, Opts: limF.Opts, HasLimit: true, Limit: limF.Limit/2 + r.n(limF.Limit)})
		limRe = len(sc.Res) - 1
	}
	nops := 8 + r.n(33)
	if tier == "thorough" && r.chance(1, 4) {
		nops += r.n(60)
	}
	cl := Client{Cost: cost}
	for i := 0; i < nops; i++ {
		if heavyRe >= 0 && r.chance(1, 6) {
			// a call aborted by its deadline at whatever instruction the clock catches it, then (often) a quick call on the same Regexp
			maxD := scriptOpCap*cost/4 - 3*p
			if maxD > 2*p {
				d := 2*p + r.i64(min64(maxD-2*p, 40*p))
				op := Op{Kind: heavyKinds[r.n(len(heavyKinds))], Re: heavyRe, In: heavyFam.In, TimeoutNs: d, Heavy: true, N: -1, Repl: "<$0>"}
				if heavyFam.Kind == "late-blowup" || heavyFam.Kind == "tail-blowup" {
					// (not the re-entrant evaluator: its inner calls have deadlines of their own, so the
					// operation may legitimately last several times d)
					for op.Kind = OpReplaceFuncReentrant; op.Kind == OpReplaceFuncReentrant; {
						op.Kind = multiKinds[r.n(len(multiKinds))]
					}
				}
				if v := pristine(sc.Res[heavyRe], &op, scriptOpCap); v.capped {
					cl.Ops = append(cl.Ops, op)
				}
			}
			if r.chance(2, 3) {
				q := Op{Kind: findKinds[r.n(len(findKinds))], Re: heavyRe, In: InputSpec{Unit: heavyFam.In.Unit, Rep: 1 + r.n(4)}, N: -1, TimeoutNs: -1, Repl: pickRepl(r), In2: lit("a")}
				if heavyFam.Probe != "" && r.chance(2, 3) {
					q.In = lit(heavyFam.Probe)
				}
				if heavyFam.Kind == "late-blowup" && r.chance(2, 3) {
					q.Kind = multiKinds[r.n(len(multiKinds))]
				}
				cl.Ops = append(cl.Ops, q)
			}
			continue
		}
		if limRe >= 0 && r.chance(1, 6) {
			in := limF.In
			in.Rep = in.Rep/2 + r.n(in.Rep)
			cl.Ops = append(cl.Ops, Op{Kind: multiKinds[r.n(len(multiKinds))], Re: limRe, In: in, TimeoutNs: -1, N: -1, Repl: pickRepl(r)})
			for k := r.n(3); k > 0; k-- {
				cl.Ops = append(cl.Ops, Op{Kind: multiKinds[r.n(len(multiKinds))], Re: limRe, In: lit(limF.Probe[r.n(len(limF.Probe))]), TimeoutNs: -1, N: -1, Repl: pickRepl(r)})
			}
			continue
		}
		if r.chance(1, 40) {
			// a streak of calls that find nothing (whatever adapts to "this pattern keeps missing" gets its chance),
			// then the history goes on
			re := r.n(nre)
			miss := []string{"#", "", "##", "\x00", "#\n#"}
			for k := 8 + r.n(16); k > 0; k-- {
				cl.Ops = append(cl.Ops, Op{Kind: []int{OpFindString, OpFindString, OpFindRunes, OpMatchString, OpFindAllString, OpReplace, OpSplit}[r.n(7)], Re: re, In: lit(miss[r.n(len(miss))]), N: -1, Repl: pickRepl(r), TimeoutNs: -1})
			}
			continue
		}
		if r.chance(1, 14) {
			// an expanding Replace (the output outgrows the buffer class the input asked for), then a Replace whose
			// input falls into the next classes, on any Regexp: the pools are process-wide
			re1, re2 := r.n(nre), r.n(nre)
			unit := func(p *pat) string {
				if u := p.Frags[r.n(len(p.Frags))]; u != "" {
					return u
				}
				return "a"
			}
			u1, u2 := unit(pats[re1]), unit(pats[re2])
			l1 := []int{700, 1500, 2500, 3500, 5000, 10000}[r.n(6)]
			l2 := l1 * (2 + r.n(3))
			cl.Ops = append(cl.Ops,
				Op{Kind: OpReplace, Re: re1, In: InputSpec{Unit: u1, Rep: l1/len(u1) + 1}, Repl: []string{"$0$0$0", "<$0$0>", "$0$0", "[$0|$0|$0|$0]", "$_"}[r.n(5)], N: -1, TimeoutNs: -1},
				Op{Kind: []int{OpReplace, OpReplace, OpReplaceFunc, OpReplaceAt}[r.n(4)], Re: re2, In: InputSpec{Unit: u2, Rep: l2/len(u2) + 1, Suf: u1}, Repl: pickRepl(r), N: -1, TimeoutNs: -1})
			continue
		}
		if r.chance(1, 25) {
			cl.Ops = append(cl.Ops, Op{Kind: OpPoolGC})
			continue
		}
		if len(limitProbes) > 0 && r.chance(1, 5) {
			// the call the limit was chosen for, possibly several times in the history
			k := r.n(len(limitProbes))
			op := limitProbes[k]
			op.Re = limitProbeRe[k]
			op.Kind = []int{OpFindString, OpMatchString, OpFindAllString, OpReplace, OpFindRunes}[r.n(5)]
			op.Repl = pickRepl(r)
			cl.Ops = append(cl.Ops, op)
			continue
		}
		re := r.n(nre)
		op := genOp(r, re, pats[re], true)
		if r.chance(1, 10) {
			// a quick call under a (generous) deadline: starts and later stops the clock
			op.TimeoutNs = 0
		}
		if n := len(cl.Ops); n > 0 && !isSilentOp(cl.Ops[n-1].Kind) && cl.Ops[n-1].In.Rep == 0 && r.chance(1, 7) {
			// the previous call's text once more through another entry point (string vs runes), or a text that
			// decodes to the same runes from different bytes: nothing keyed by the decoded text may be reused
			op.In = cl.Ops[n-1].In
			switch r.n(3) {
			case 0:
				op.In.Pre = strings.ReplaceAll(op.In.Pre, "\xff", "\uFFFD")
			case 1:
				op.In.Pre = strings.ReplaceAll(op.In.Pre, "\uFFFD", "\xff")
			}
			if op.Kind == OpFindStringAt || op.Kind == OpFindRunesAt || op.Kind == OpReplaceAt {
				op.StartAt = 0
			}
		}
		cl.Ops = append(cl.Ops, op)
	}
	// drop operations whose sequential run exceeds the cap; give timed quick calls a safe deadline
	kept := cl.Ops[:0]
	for i := range cl.Ops {
		op := cl.Ops[i]
		if isSilentOp(op.Kind) || op.Heavy {
			kept = append(kept, op)
			continue
		}
		v := pristine(sc.Res[op.Re], &op, scriptOpCap)
		if v.capped {
			continue
		}
		if op.TimeoutNs == 0 {
			op.TimeoutNs = 2*p + 8*v.steps*cost + r.i64(50*p)
		}
		kept = append(kept, op)
	}
	cl.Ops = kept
	sc.Clients = []Client{cl}
	cfg.Alphabet = alphabetOf(sc)
	sc.Cfg = cfg
	viaUnmarshal(r, sc, 1, 6)
	nameOps(sc)
	return sc
}

func min64(a, b int64) int64 {
	if a < b {
		return a
	}
	return b
}
