package main

import (
	"fmt"
	"math"
	"slices"
	"strings"
	"time"

	regexp2 "github.com/dlclark/regexp2/v2"
	"github.com/dlclark/regexp2/v2/compat"
	"github.com/dlclark/regexp2/v2/syntax"
	"github.com/dlclark/regexp2/v2/vsim"
)

const tickNs = int64(1 << 20) // one clock tick of fastclock.go (durationToTicks)

type opRecord struct {
	Got        string
	Want       string
	WantSteps  int64
	WantCapped bool
	T0, T1     int64
	S0, S1     int64
	Late, Busy int64 // worst lateness / busy time of spawned (clock) tasks observed so far, at return
	Desched    int64 // longest involuntary descheduling of any task observed so far, at return
	Done       bool
	Started    bool
	FaultsAtT0 int64 // stalls injected before the operation started
	ctx        opCtx
	hits0      int64
	PoolHits   int64 // pooled items handed to this operation
	KeptBad    string
}

type runResult struct {
	Violations []Violation
	Records    [][]opRecord
	St         vsim.Stats
	Steps      int64
	Vnow       int64
	Hash       uint64
	IHash      uint64
	Stop       int
	Pairs      []uint64
	Trace      []int64
	Probes     map[string]int64
	ClockTasks int
	NTHashes   []uint64 // hashes of the distinct non-trivial cases this run contributed
	OracleHits int
	OracleMiss int
}

type oracleVal struct {
	res    string
	steps  int64
	capped bool
}

var oracleCache = map[string]oracleVal{}
var oracleHits, oracleMiss int

type adapterPair struct {
	re *regexp2.Regexp
	ad *compat.Regexp
}

var adapters []adapterPair

// adapterOf returns the run's adapter of a shared Regexp, or a new one (pristine world, Regexps made inside an operation).
func adapterOf(re *regexp2.Regexp) *compat.Regexp {
	for i := range adapters {
		if adapters[i].re == re {
			return adapters[i].ad
		}
	}
	return compat.Wrap(re)
}

func resetGlobals(periodNs int64) {
	adapters = adapters[:0]
	sharedRunes = sharedRunes[:0]
	syntax.VerifResetGlobals() // first: the other packages' initialisers may refer to its objects
	regexp2.VerifResetGlobals()
	compat.VerifResetGlobals()
	if periodNs > 0 {
		regexp2.SetTimeoutCheckPeriod(time.Duration(periodNs))
	}
}

// pristine runs one operation alone, on a freshly compiled Regexp, in a world with
// always-empty pools, no faults and the given step cap.  No deadline is set.
func pristine(spec ReSpec, op *Op, cap int64) oracleVal {
	spec.TimeoutNs = 0
	spec.Private = 0
	key := fmt.Sprintf("%#v|%d|%#v|%#v|%q|%d|%d|%d", spec, op.Kind, op.In, op.In2, op.Repl, op.N, op.StartAt, cap)
	if v, ok := oracleCache[key]; ok {
		oracleHits++
		return v
	}
	oracleMiss++
	if len(oracleCache) > 40000 {
		oracleCache = map[string]oracleVal{} // bounded memory in long (thorough) batches
	}
	resetGlobals(0)
	re, err := compileSpec(spec)
	var v oracleVal
	if err != nil {
		v = oracleVal{res: "COMPILE:" + err.Error()}
		oracleCache[key] = v
		return v
	}
	w := vsim.NewWorld(1, vsim.Config{Policy: vsim.Fair, PoolMode: vsim.PoolMiss, MaxSteps: cap})
	var res string
	var steps int64
	w.Spawn("oracle", 1, func() {
		res = execOp(re, op, nil)
		steps = vsim.MySteps()
	})
	w.Run()
	if w.Stop == vsim.StopOverrun {
		v = oracleVal{res: "CAP", steps: cap, capped: true}
	} else if w.Stop != vsim.StopNone {
		v = oracleVal{res: fmt.Sprintf("ORACLE-STOP-%d", w.Stop), steps: steps}
	} else {
		v = oracleVal{res: res, steps: steps}
	}
	oracleCache[key] = v
	return v
}

func isSilentOp(k int) bool {
	return k == OpIdle || k == OpStopClock || k == OpBarrier || k == OpPoolGC
}

type runOpts struct {
	trace   bool
	verbose bool
}

// effective timeout of an operation: the op's own (private Regexps), else the spec's.
func effTimeout(sc *Scenario, op *Op) int64 {
	if op.TimeoutNs == -1 {
		return 0 // no timeout
	}
	if op.TimeoutNs != 0 {
		return op.TimeoutNs // may be negative: an already expired timeout
	}
	if op.Re >= len(sc.Res) {
		return 0
	}
	return sc.Res[op.Re].TimeoutNs
}

// runScript executes a script scenario (C11, C12, C14) and evaluates the oracles.
func runScript(sc *Scenario, ro runOpts) *runResult {
	rr := &runResult{Probes: map[string]int64{}}
	viol := func(class string, c, i int, format string, a ...any) {
		rr.Violations = append(rr.Violations, Violation{Class: class, Client: c, Op: i, Detail: fmt.Sprintf(format, a...)})
	}
	cap := sc.OpStepCap
	if cap == 0 {
		cap = 3_000_000
	}
	// 1. oracles
	rr.Records = make([][]opRecord, len(sc.Clients))
	for c := range sc.Clients {
		rr.Records[c] = make([]opRecord, len(sc.Clients[c].Ops))
		for i := range sc.Clients[c].Ops {
			op := &sc.Clients[c].Ops[i]
			if isSilentOp(op.Kind) {
				continue
			}
			v := pristine(sc.Res[op.Re], op, cap)
			r := &rr.Records[c][i]
			r.Want, r.WantSteps, r.WantCapped = v.res, v.steps, v.capped
		}
	}
	// 2. the simulated run
	resetGlobals(sc.PeriodNs)
	if sc.DefaultTimeoutNs > 0 {
		// an application that lowers the process-wide default: Regexps compiled from here on start with it,
		// and a MatchTimeout that happens to equal it is still an ordinary timeout
		regexp2.DefaultMatchTimeout = time.Duration(sc.DefaultTimeoutNs)
	}
	res := make([]*regexp2.Regexp, len(sc.Res))
	for i := range sc.Res {
		re, err := compileSpec(sc.Res[i])
		if err != nil {
			viol("harness", -1, -1, "pattern %q does not compile: %v", sc.Res[i].Pat, err)
			return rr
		}
		res[i] = re
	}
	shareRunes(sc)
	// one compat adapter per Regexp for the whole run (an adapter object is long-lived in an application);
	// filled in before the clients exist and only read afterwards
	adapters = adapters[:0]
	for _, re := range res {
		adapters = append(adapters, adapterPair{re, compat.Wrap(re)})
	}
	cfg := sc.Cfg
	cfg.Trace = ro.trace
	w := vsim.NewWorld(sc.SchedSeed, cfg)
	p := sc.PeriodNs
	if p == 0 {
		p = int64(100 * time.Millisecond)
	}
	maxCost := int64(1)
	for _, cl := range sc.Clients {
		if cl.Cost > maxCost {
			maxCost = cl.Cost
		}
		for _, o := range cl.Ops {
			if o.Cost > maxCost {
				maxCost = o.Cost
			}
		}
	}
	nCl := int64(len(sc.Clients))
	// while one client executes a step every other client may execute one too (one time-sliced virtual CPU)
	sumCost := int64(0)
	for _, cl := range sc.Clients {
		c := cl.Cost
		for _, o := range cl.Ops {
			if o.Cost > c {
				c = o.Cost
			}
		}
		sumCost += c
	}
	// scheduling slack in steps: a round of quanta of the tasks that share the virtual CPU (clients + clock task)
	schedSlack := (nCl + 1) * cfg.Quantum
	fair := cfg.Policy == vsim.Fair
	bar := &vsim.Barrier{N: len(sc.Clients)}
	races0 := vsim.RaceErrors()
	for c := range sc.Clients {
		c := c
		cl := &sc.Clients[c]
		recs := rr.Records[c]
		w.Spawn(fmt.Sprintf("client%d", c), cl.Cost, func() {
			for i := range cl.Ops {
				op := &cl.Ops[i]
				r := &recs[i]
				if op.Cost > 0 {
					vsim.SetCost(op.Cost)
				}
				if op.Kind == OpBarrier {
					bar.Wait()
					continue
				}
				var re *regexp2.Regexp
				if op.Re < len(res) {
					re = res[op.Re]
				}
				if re == nil {
				} else if op.TimeoutNs == -1 && sc.DefaultTimeoutNs > 0 {
					re.MatchTimeout = time.Duration(math.MaxInt64) // "forever", spelled out: the default is finite in this run
				} else if op.TimeoutNs == -1 {
					re.MatchTimeout = regexp2.DefaultMatchTimeout
				} else if op.TimeoutNs != 0 {
					re.MatchTimeout = time.Duration(op.TimeoutNs)
				}
				d := effTimeout(sc, op)
				r.Started = true
				r.T0, r.S0 = vsim.VNow(), vsim.MySteps()
				r.FaultsAtT0 = vsim.StallCount()
				var stepLim, vDead int64
				switch {
				case op.Kind == OpStopClock:
					// StopTimeoutClock polls every p/2 and needs the clock task to notice: 5p + 2T (+ scheduling slack)
					// (op.N == 1: a timed call is started on purpose while this Stop waits; it then waits for that deadline, too)
					if fair && cfg.StallProb == 0 && cfg.SyncStallProb == 0 && op.N == 0 {
						vDead = r.T0 + 5*p + 2*tickNs + cfg.Jitter*3 + (400+2*schedSlack)*maxCost
					}
				case op.Kind == OpIdle:
				case d != 0 && r.WantCapped:
					// a catastrophic timed call: must end in a timeout (a negative timeout has expired already)
					d := max64(d, 0)
					pre := int64(24*len(op.In.Text()) + 1500) // steps spent decoding the input before the deadline is set
					if fair && cfg.StallProb == 0 && cfg.SyncStallProb == 0 {
						vDead = r.T0 + d + 3*p + 2*tickNs + cfg.Jitter + pre*sumCost + 2*schedSlack*maxCost
					} else {
						q := cfg.Quantum
						if q == 0 {
							q = 1 << 20
						}
						vDead = r.T0 + d + 12*p + 4*tickNs + 8*cfg.Jitter + 8*cfg.StallMax + 40*cfg.SyncStallMax + (pre+40*(nCl+2)*q)*maxCost
					}
				case !r.WantCapped:
					stepLim = 20*r.WantSteps + 20000
				}
				keep := &r.ctx
				vsim.SetOpLimits(stepLim, vDead)
				vsim.Inflight(1)
				r.hits0 = vsim.PoolHitCount()
				r.Got = execOp(re, op, keep)
				vsim.Inflight(-1)
				vsim.SetOpLimits(0, 0)
				r.T1, r.S1 = vsim.VNow(), vsim.MySteps()
				r.Late, r.Busy = vsim.SpawnedLag()
				r.Desched = vsim.MaxDesched()
				r.PoolHits = vsim.PoolHitCount() - r.hits0
				r.Done = true
				if d != 0 {
					vsim.NoteMax(r.T1 + max64(d, 0))
				}
				vsim.OpBoundary()
			}
			// clean-up bound: once the last client is done, every background task must exit by
			// max(t_ret+d) + 1s + 3p + 3T + jitter (+ injected stalls) -- DESIGN §3 C14
			lastClient := vsim.ClientFinished() == len(sc.Clients)
			if lastClient && !sc.NoDrain {
				if end := vsim.NoteMax(0); end > 0 {
					vsim.SetWorldVLimit(end + int64(time.Second) + 3*p + 3*tickNs + 2*cfg.Jitter + 2*cfg.StallMax + 8*cfg.SyncStallMax + (400+2*schedSlack)*maxCost)
				}
			}
			// results handed out earlier must still read the same
			for i := range recs {
				for _, k := range recs[i].ctx.kept {
					var sb strings.Builder
					func() {
						defer func() {
							if x := recover(); x != nil {
								if vsim.IsAbort(x) {
									panic(x)
								}
								fmt.Fprintf(&sb, "PANIC:%v", x)
							}
						}()
						if k.e != nil {
							sb.WriteString(k.e.Error())
						} else if k.m == nil {
							sb.WriteString(string(k.runes))
						} else {
							canonOne(&sb, k.m)
						}
					}()
					if sb.String() != k.canon && recs[i].KeptBad == "" {
						recs[i].KeptBad = fmt.Sprintf("a value returned earlier (match or error) reads differently now: was %s now %s", clip(k.canon), clip(sb.String()))
					}
				}
			}
			if sc.NoDrain && lastClient {
				vsim.RequestStop()
			}
		})
	}
	w.Run()
	rr.St, rr.Steps, rr.Vnow, rr.Hash, rr.IHash, rr.Stop = w.St, w.Steps, w.Vnow, w.Hash, w.IHash, w.Stop
	rr.Pairs = w.Pairs()
	if ro.trace {
		rr.Trace = w.TraceLog()
	}
	if d := vsim.RaceErrors() - races0; d > 0 {
		viol("race", -1, -1, "%d data race report(s) during the run", d)
	}

	// 3. oracles over the records
	stopC, stopI := -1, -1
	if w.Stop != vsim.StopNone && w.StopTask >= 0 && w.StopTask < len(sc.Clients) {
		stopC = w.StopTask
		for i := range rr.Records[stopC] {
			if rr.Records[stopC][i].Started && !rr.Records[stopC][i].Done {
				stopI = i
			}
		}
	}
	switch w.Stop {
	case vsim.StopDeadlock:
		viol("deadlock", -1, -1, "no runnable task and no pending timer while tasks are unfinished")
	case vsim.StopOverrun:
		viol("overrun", stopC, stopI, "global step cap %d exceeded", cfg.MaxSteps)
	case vsim.StopOpSteps:
		if stopI >= 0 {
			r := rr.Records[stopC][stopI]
			viol("progress", stopC, stopI, "%s used more than 20x+20000 its sequential step count (%d)", opNames[sc.Clients[stopC].Ops[stopI].Kind], r.WantSteps)
		} else {
			viol("progress", stopC, stopI, "step limit exceeded")
		}
	case vsim.StopOpVTime:
		if stopI >= 0 {
			op := &sc.Clients[stopC].Ops[stopI]
			r := rr.Records[stopC][stopI]
			if op.Kind == OpStopClock {
				viol("stop-slow", stopC, stopI, "StopTimeoutClock still running %v after it was called (p=%v)", time.Duration(w.Vnow-r.T0), time.Duration(p))
			} else {
				viol("late-timeout", stopC, stopI, "timed call (d=%v, p=%v) still running %v after it started; sequential run exceeds the step cap, so it must time out", time.Duration(effTimeout(sc, op)), time.Duration(p), time.Duration(w.Vnow-r.T0))
			}
		} else {
			viol("late-timeout", stopC, stopI, "virtual deadline exceeded")
		}
	case vsim.StopWorldTime:
		viol("clock-leak", -1, -1, "background task still alive at the clean-up bound (vnow=%v)", time.Duration(w.Vnow))
	}
	for i := range sharedRunes {
		if !slices.Equal(sharedRunes[i].runes, sharedRunes[i].orig) {
			viol("input-modified", -1, -1, "a []rune input of the run no longer spells its text: %s", clip(fmt.Sprintf("%q", string(sharedRunes[i].runes))))
			break
		}
	}
	for i := 0; i < w.NTasks(); i++ {
		t := w.TaskAt(i)
		if t.Panic != nil {
			viol("panic", -1, -1, "task %s (spawn site %d): %v", t.Name, t.Site, t.Panic)
			if ro.verbose {
				fmt.Println(t.PanicStack)
			}
		}
		if t.Site != 0 {
			rr.ClockTasks++
		}
	}
	for c := range rr.Records {
		for i := range rr.Records[c] {
			r := &rr.Records[c][i]
			op := &sc.Clients[c].Ops[i]
			if !r.Done || isSilentOp(op.Kind) {
				continue
			}
			checkRecord(sc, rr, c, i, op, r, p, maxCost, viol)
		}
	}
	// coverage: is this run non-trivial by the property's rule?
	switch sc.Prop {
	case "C14":
		for c := range rr.Records {
			for i := range rr.Records[c] {
				if sc.Clients[c].Ops[i].Heavy && strings.HasSuffix(rr.Records[c][i].Got, "TIMEOUT") {
					rr.Probes["nontrivial"] = 1
					rr.Probes["catastrophic_timed_out"]++
				}
			}
		}
	case "C11":
		if w.St.OverlapSwitches > 0 {
			rr.Probes["nontrivial"] = 1
		}
	case "C12":
		if w.St.PoolHits > 0 {
			rr.Probes["nontrivial"] = 1
		}
		// reach probes: which kind of call left the state that the next call on the same Regexp reused
		last := map[int]string{}
		for i := 0; len(rr.Records) > 0 && i < len(rr.Records[0]); i++ {
			r := &rr.Records[0][i]
			op := &sc.Clients[0].Ops[i]
			if !r.Done || isSilentOp(op.Kind) {
				continue
			}
			if prev, ok := last[op.Re]; ok && r.PoolHits > 0 {
				rr.Probes["reuse_after:"+prev+"->"+opNames[op.Kind]]++
				rr.Probes["reuse_after:"+prev]++
			}
			cls := opNames[op.Kind]
			switch {
			case strings.HasSuffix(r.Got, "TIMEOUT"):
				cls = "timeout-abort"
			case strings.HasSuffix(r.Got, "LIMIT"):
				cls = "stack-limit-abort"
			case op.Kind == OpMatchString || op.Kind == OpMatchRunes:
				cls = "bool-only " + r.Got
			case strings.Contains(sc.Res[op.Re].Pat, "-o>") || strings.Contains(sc.Res[op.Re].Pat, "-open>"):
				cls = "balancing " + cls
			}
			last[op.Re] = cls
			if n := len(op.In.Text()); n > 1024 {
				rr.Probes["input_over_1K"]++
				if n > 4096 {
					rr.Probes["input_over_4K"]++
				}
				if n > 16384 {
					rr.Probes["input_over_16K"]++
				}
			}
		}
	}
	rr.Probes["clock_tasks_started"] += int64(rr.ClockTasks)
	for c := range rr.Records {
		for i := range rr.Records[c] {
			if rr.Records[c][i].Done {
				rr.Probes["op:"+opNames[sc.Clients[c].Ops[i].Kind]]++
			}
		}
	}
	return rr
}

func clip(s string) string {
	if len(s) > 400 {
		return s[:400] + fmt.Sprintf("...(%d bytes)", len(s))
	}
	return s
}

func checkRecord(sc *Scenario, rr *runResult, c, i int, op *Op, r *opRecord, p, maxCost int64, viol func(string, int, int, string, ...any)) {
	d := effTimeout(sc, op)
	lat := r.T1 - r.T0
	if r.ctx.calls > 1 && r.ctx.lastStart >= r.T0 {
		lat = r.T1 - r.ctx.lastStart // a walk: the call that timed out got its own deadline when it started
	}
	name := opNames[op.Kind]
	desc := func() string {
		return fmt.Sprintf("%s pattern=%q opts=%#x input=%s", name, sc.Res[op.Re].Pat, sc.Res[op.Re].Opts, clip(fmt.Sprintf("%q", op.In.Text())))
	}
	if r.KeptBad != "" {
		viol("retained-changed", c, i, "%s: %s", desc(), r.KeptBad)
	}
	if strings.HasPrefix(r.Got, "PANIC:") && !strings.HasPrefix(r.Want, "PANIC:") {
		viol("panic", c, i, "%s: %s (sequential: %s)", desc(), clip(r.Got), clip(r.Want))
		return
	}
	if strings.HasSuffix(r.Got, "TIMEOUT") && !strings.HasSuffix(r.Want, "TIMEOUT") {
		rr.Probes["timeouts"]++
		if d == 0 {
			viol("timeout-without-deadline", c, i, "%s returned a timeout although no MatchTimeout is set", desc())
			return
		}
		// never early: lat >= d - 2T - S - s  (DESIGN §3 C14)
		// S: how old the clock value a deadline was computed from can have been beyond one period: the lag of
		// the clock goroutine plus the longest time any task was kept off the CPU (a caller descheduled between
		// refreshing the clock value and starting the clock goroutine leaves the value that much older)
		S := r.Late + 2*r.Busy + r.Desched
		slack := 400 * maxCost
		lo := d - 2*tickNs - S - slack
		if lat < lo {
			viol("early-timeout", c, i, "%s timed out after %v with d=%v p=%v (lower bound %v; clock lag observed %v)", desc(), time.Duration(lat), time.Duration(d), time.Duration(p), time.Duration(lo), time.Duration(S))
			return
		}
		if !r.WantCapped {
			pre := strings.TrimSuffix(r.Got, "TIMEOUT")
			if !strings.HasPrefix(r.Want, pre) {
				viol("result-mismatch", c, i, "%s: matches before the timeout differ from the sequential ones: got %s want %s", desc(), clip(r.Got), clip(r.Want))
			}
		}
		return
	}
	if r.WantCapped {
		viol("result-mismatch", c, i, "%s returned %s after %d steps although its sequential run exceeds %d steps", desc(), clip(r.Got), r.S1-r.S0, r.WantSteps)
		return
	}
	if r.Got != r.Want {
		viol("result-mismatch", c, i, "%s: got %s want %s", desc(), clip(r.Got), clip(r.Want))
	}
}

func max64(a, b int64) int64 {
	if a > b {
		return a
	}
	return b
}
