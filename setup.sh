#!/bin/bash
# Offline set-up: build the instrumenter and warm the Go build cache (plain and -race standard library + harness).
set -e
cd "$(dirname "$0")"
export GOFLAGS=-mod=mod GOPROXY=off GOSUMDB=off GOTOOLCHAIN=local GOWORK=off
S=$(mktemp -d -t regexp2-verif-setup-XXXXXX)
trap 'rm -rf "$S"' EXIT
tools/build.sh "$S" both
echo setup ok
