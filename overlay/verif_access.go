//go:build verif

// Observers the harness needs inside package regexp2.  This file is copied into
// the instrumented scratch copy only; nothing under /repo is changed.
package regexp2

// VerifRunnerCaps reports, over the interpreter states currently pooled by re, the
// largest backtracking-stack capacity (and the other two stacks), and how many
// states are pooled.
//
//go:norace
func VerifRunnerCaps(re *Regexp) (track, stack, crawl, n int) {
	if re.runnerPool == nil {
		return
	}
	for _, it := range re.runnerPool.Items() {
		r, ok := it.(*Runner)
		if !ok || r == nil {
			continue
		}
		n++
		if len(r.runtrack) > track {
			track = len(r.runtrack)
		}
		if len(r.runstack) > stack {
			stack = len(r.runstack)
		}
		if len(r.runcrawl) > crawl {
			crawl = len(r.runcrawl)
		}
	}
	return
}

// VerifTrackCount is the number of backtracking instructions of the compiled program.
func VerifTrackCount(re *Regexp) int {
	if re.code == nil {
		return 0
	}
	return re.code.TrackCount
}

// VerifHasQuickCode tells whether a bool-only program exists for re.
func VerifHasQuickCode(re *Regexp) bool { return re.quickCode != nil }

// VerifClockState exposes the timeout clock's internals (evidence probes only).
//
//go:norace
func VerifClockState() (running bool, current, clockEnd int64, started bool) {
	return fast.running, int64(fast.current.read()), int64(fast.clockEnd.read()), !fast.start.IsZero()
}
