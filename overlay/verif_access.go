//go:build verif

// Observers the harness needs inside package regexp2.  This file is copied into
// the instrumented scratch copy only; nothing under /repo is changed.
//
// The observers look fields up by name through reflection, so that an edited
// tree that renames or removes one of them still builds: the observer then
// reports "unknown" (ok == false) and the oracle that needs it is skipped,
// instead of the whole check failing to compile.
package regexp2

import (
	"reflect"
	"unsafe"
)

func verifField(v reflect.Value, name string) (reflect.Value, bool) {
	for v.Kind() == reflect.Pointer || v.Kind() == reflect.Interface {
		if v.IsNil() {
			return reflect.Value{}, false
		}
		v = v.Elem()
	}
	if v.Kind() != reflect.Struct {
		return reflect.Value{}, false
	}
	f := v.FieldByName(name)
	if !f.IsValid() || !f.CanAddr() {
		return reflect.Value{}, false
	}
	return reflect.NewAt(f.Type(), unsafe.Pointer(f.UnsafeAddr())).Elem(), true
}

type verifItemser interface{ Items() []any }

// VerifRunnerCaps reports, over the interpreter states currently pooled by re, the
// largest backtracking-stack capacity (and the other two stacks), and how many
// states are pooled.  ok is false when the pool or the stack cannot be found.
//
//go:norace
func VerifRunnerCaps(re *Regexp) (track, stack, crawl, n int, ok bool) {
	pf, found := verifField(reflect.ValueOf(re), "runnerPool")
	if !found || !pf.CanInterface() {
		return
	}
	pool, isPool := pf.Interface().(verifItemser)
	if !isPool || pool == nil || reflect.ValueOf(pool).IsNil() {
		return 0, 0, 0, 0, isPool
	}
	ok = true
	for _, it := range pool.Items() {
		rv := reflect.ValueOf(it)
		if !rv.IsValid() || rv.Kind() != reflect.Pointer || rv.IsNil() {
			continue
		}
		n++
		for i, name := range [3]string{"runtrack", "runstack", "runcrawl"} {
			f, found := verifField(rv, name)
			if !found || f.Kind() != reflect.Slice {
				if i == 0 {
					ok = false
				}
				continue
			}
			l := f.Len()
			switch i {
			case 0:
				if l > track {
					track = l
				}
			case 1:
				if l > stack {
					stack = l
				}
			case 2:
				if l > crawl {
					crawl = l
				}
			}
		}
	}
	return
}

// VerifTrackCount is the number of backtracking instructions of the compiled program (0 if unknown).
func VerifTrackCount(re *Regexp) int {
	c, found := verifField(reflect.ValueOf(re), "code")
	if !found {
		return 0
	}
	t, found := verifField(c, "TrackCount")
	if !found || !t.CanInt() {
		return 0
	}
	return int(t.Int())
}
