package vsim

// Simulated channels, for edited trees that introduce them (a stop channel for the clock goroutine, a
// semaphore, a select with a timer).  The instrumenter rewrites
//
//	chan T / <-chan T / chan<- T     -> *vsim.Chan[T]
//	make(chan T, n)                  -> vsim.MakeChan[T](n)
//	c <- v                           -> c.Send(v)
//	<-c                              -> c.Recv()          v, ok := <-c  ->  c.Recv2()
//	close(c)                         -> vsim.Close(c)
//	select { case ...: }             -> switch vsim.Select(hasDefault, vsim.OnRecv(c), vsim.OnSend(c, v), ...)
//
// Ticker.C / Timer.C / After / Tick are Chan[time.Time] fed by the virtual clock.  len, cap and range over
// a channel are not supported (the copy then does not compile: status 2).
//
// The algorithm is the classic one (queues of waiting senders and receivers, a select registers on all of
// its channels and the first partner to come by fires it); which ready case a select takes is drawn from
// the world's PRNG.  Happens-before edges for the race detector: release at send/close, acquire at receive.

import (
	"sync"
	"time"
	"unsafe"
)

type selState struct {
	fired bool
	idx   int
}

type waiter[T any] struct {
	t    *Task
	val  T
	ok   bool
	done bool
	sel  *selState
	idx  int
	rc   *RecvCase[T] // select receive case to deliver into
}

type Chan[T any] struct {
	buf    []T
	n      int
	head   int
	capa   int
	closed bool
	recvq  []*waiter[T]
	sendq  []*waiter[T]
	tk     *Ticker // time channels
	tm     *Timer
	real   chan T // pass-through mode only
}

// TimeChan is the channel type of tickers and timers.
type TimeChan = Chan[time.Time]

func MakeChan[T any](size ...int) *Chan[T] {
	n := 0
	if len(size) > 0 {
		n = size[0]
	}
	c := &Chan[T]{capa: n}
	if n > 0 {
		c.buf = make([]T, n)
	}
	return c
}

var realChanMu sync.Mutex

// realChan is the pass-through representation: operations performed outside a world (the repository's own
// tests on the instrumented copy) go to a real channel created on first use.  A channel made by a
// package-level initialiser is therefore simulated inside worlds and real outside them.
func (c *Chan[T]) realChan() chan T {
	realChanMu.Lock()
	defer realChanMu.Unlock()
	if c.real == nil {
		c.real = make(chan T, c.capa)
	}
	return c.real
}

//go:norace
func (c *Chan[T]) push(v T) {
	c.buf[(c.head+c.n)%c.capa] = v
	c.n++
}

//go:norace
func (c *Chan[T]) pop() T {
	v := c.buf[c.head]
	var zero T
	c.buf[c.head] = zero
	c.head = (c.head + 1) % c.capa
	c.n--
	return v
}

//go:norace
func popLive[T any](q *[]*waiter[T]) *waiter[T] {
	for len(*q) > 0 {
		x := (*q)[0]
		// manual shift: no append/copy on simulator state
		old := *q
		nq := make([]*waiter[T], len(old)-1)
		for i := 1; i < len(old); i++ {
			nq[i-1] = old[i]
		}
		*q = nq
		if x.done || (x.sel != nil && x.sel.fired) || x.t.abort || x.t.state == stDone {
			continue // a select that fired elsewhere, or a task that is gone
		}
		return x
	}
	return nil
}

//go:norace
func pushWaiter[T any](q *[]*waiter[T], x *waiter[T]) {
	old := *q
	live := 0
	for i := range old {
		if !(old[i].done || (old[i].sel != nil && old[i].sel.fired)) {
			live++
		}
	}
	nq := make([]*waiter[T], 0, live+1) // registrations of selects that fired elsewhere (or gave up) are dropped here
	for i := range old {
		if !(old[i].done || (old[i].sel != nil && old[i].sel.fired)) {
			nq = nq[:len(nq)+1]
			nq[len(nq)-1] = old[i]
		}
	}
	nq = nq[:len(nq)+1]
	nq[len(nq)-1] = x
	*q = nq
}

//go:norace
func fire[T any](w *World, x *waiter[T]) {
	x.done = true
	if x.sel != nil {
		x.sel.fired = true
		x.sel.idx = x.idx
	}
	if x.t.state == stBlocked || (x.t.state == stSleeping && x.sel != nil) {
		x.t.armSeq = 0 // a select that also waits for a timer: the timer is cancelled
		x.t.state = stRunnable
		x.t.readyAt = w.Steps
		x.t.waitFrom = w.Vnow
	}
}

// trySend delivers v without blocking if it can.
//
//go:norace
func (c *Chan[T]) trySend(w *World, v T) bool {
	if c.closed {
		panic("send on closed channel")
	}
	if r := popLive(&c.recvq); r != nil {
		raceReleaseMerge(unsafe.Pointer(c))
		if r.rc != nil {
			r.rc.val, r.rc.ok = v, true
		}
		r.val, r.ok = v, true
		fire(w, r)
		return true
	}
	if c.n < c.capa {
		raceReleaseMerge(unsafe.Pointer(c))
		c.push(v)
		return true
	}
	return false
}

// tryRecv takes a value without blocking if it can (ready == false: would block).
//
//go:norace
func (c *Chan[T]) tryRecv(w *World) (v T, ok bool, ready bool) {
	if c.tk != nil || c.tm != nil {
		at, live := c.timeReady()
		if !live || w.Vnow < at {
			return v, false, false
		}
		c.timeTake(w)
		return any(Epoch.Add(time.Duration(at))).(T), true, true
	}
	if c.n > 0 {
		v = c.pop()
		if s := popLive(&c.sendq); s != nil { // a blocked sender moves up into the buffer
			c.push(s.val)
			fire(w, s)
		}
		raceAcquire(unsafe.Pointer(c))
		return v, true, true
	}
	if s := popLive(&c.sendq); s != nil {
		v = s.val
		fire(w, s)
		raceAcquire(unsafe.Pointer(c))
		return v, true, true
	}
	if c.closed {
		raceAcquire(unsafe.Pointer(c))
		return v, false, true
	}
	return v, false, false
}

//go:norace
func (c *Chan[T]) timeReady() (at int64, live bool) {
	if c.tk != nil {
		return c.tk.next, !c.tk.stopped
	}
	return c.tm.at, !c.tm.stopped && !c.tm.fired
}

//go:norace
func (c *Chan[T]) timeTake(w *World) {
	if tk := c.tk; tk != nil {
		for tk.next <= w.Vnow { // the channel buffers one tick, later ones are dropped
			tk.next += tk.period
		}
		return
	}
	c.tm.fired = true
}

func (c *Chan[T]) Send(v T) {
	if c != nil && world() == nil {
		c.realChan() <- v
		return
	}
	c.sendSim(v)
}

//go:norace
func (c *Chan[T]) sendSim(v T) {
	w := W
	if w == nil {
		panic("vsim: simulated channel used outside a world")
	}
	t := w.cur
	if t.abort {
		return
	}
	w.syncPoint(-14)
	if c == nil {
		blockForever(w, t)
		return
	}
	if c.trySend(w, v) {
		w.syncPoint(-14)
		return
	}
	x := &waiter[T]{t: t, val: v}
	pushWaiter(&c.sendq, x)
	for !x.done {
		if c.closed {
			panic("send on closed channel")
		}
		t.state = stBlocked
		w.yield(t, -14)
		if t.abort {
			return
		}
	}
}

func (c *Chan[T]) Recv() T {
	v, _ := c.Recv2()
	return v
}

func (c *Chan[T]) Recv2() (T, bool) {
	if c != nil && c.tk == nil && c.tm == nil && world() == nil {
		v, ok := <-c.realChan()
		return v, ok
	}
	if c != nil && c.tk != nil && c.tk.real != nil {
		return any(<-c.tk.real.C).(T), true
	}
	if c != nil && c.tm != nil && c.tm.real != nil {
		return any(<-c.tm.real.C).(T), true
	}
	return c.recvSim()
}

//go:norace
func (c *Chan[T]) recvSim() (v T, ok bool) {
	w := W
	if w == nil {
		panic("vsim: simulated channel used outside a world")
	}
	t := w.cur
	if t.abort {
		return
	}
	w.syncPoint(-15)
	if c == nil {
		blockForever(w, t)
		return
	}
	for {
		var ready bool
		if v, ok, ready = c.tryRecv(w); ready {
			return v, ok
		}
		if c.tk != nil || c.tm != nil {
			at, live := c.timeReady()
			if !live {
				blockForever(w, t) // a stopped ticker / fired timer never delivers
				return
			}
			w.arm(t, at-w.Vnow)
			w.yield(t, -1)
			if t.abort {
				return
			}
			continue
		}
		x := &waiter[T]{t: t}
		pushWaiter(&c.recvq, x)
		for !x.done {
			if c.closed {
				x.done = true
				raceAcquire(unsafe.Pointer(c))
				return v, false
			}
			t.state = stBlocked
			w.yield(t, -15)
			if t.abort {
				return
			}
		}
		raceAcquire(unsafe.Pointer(c))
		return x.val, x.ok
	}
}

//go:norace
func blockForever(w *World, t *Task) {
	for !t.abort {
		t.state = stBlocked
		w.yield(t, -13)
	}
}

// Close is what close(c) is rewritten to.
func Close[T any](c *Chan[T]) {
	if world() == nil {
		close(c.realChan())
		return
	}
	c.closeSim()
}

//go:norace
func (c *Chan[T]) closeSim() {
	w := W
	if w == nil {
		panic("vsim: simulated channel used outside a world")
	}
	if w.cur.abort {
		return
	}
	if c.closed {
		panic("close of closed channel")
	}
	raceReleaseMerge(unsafe.Pointer(c))
	c.closed = true
	// every blocked receiver gets the zero value; blocked senders panic when they wake
	for {
		r := popLive(&c.recvq)
		if r == nil {
			break
		}
		if r.rc != nil {
			var zero T
			r.rc.val, r.rc.ok = zero, false
		}
		fire(w, r)
	}
	for i := range c.sendq {
		if x := c.sendq[i]; x.t.state == stBlocked {
			x.t.state = stRunnable
			x.t.readyAt = w.Steps
		}
	}
	w.syncPoint(-14)
}

// ---- select ----

type selCase interface {
	try(w *World) bool // perform the operation if it can proceed now
	enqueue(w *World, t *Task, sel *selState, idx int)
	timeAt() (int64, bool) // for time channels: when the case becomes ready
	isNil() bool
}

type RecvCase[T any] struct {
	c   *Chan[T]
	val T
	ok  bool
}

type SendCase[T any] struct {
	c   *Chan[T]
	val T
}

func OnRecv[T any](c *Chan[T]) *RecvCase[T]      { return &RecvCase[T]{c: c} }
func OnSend[T any](c *Chan[T], v T) *SendCase[T] { return &SendCase[T]{c: c, val: v} }

func (r *RecvCase[T]) Value() T          { return r.val }
func (r *RecvCase[T]) Value2() (T, bool) { return r.val, r.ok }

//go:norace
func (r *RecvCase[T]) isNil() bool { return r.c == nil }

//go:norace
func (r *RecvCase[T]) try(w *World) bool {
	v, ok, ready := r.c.tryRecv(w)
	if ready {
		r.val, r.ok = v, ok
	}
	return ready
}

//go:norace
func (r *RecvCase[T]) enqueue(w *World, t *Task, sel *selState, idx int) {
	if r.c.tk != nil || r.c.tm != nil {
		return // woken by the timer armed for timeAt
	}
	pushWaiter(&r.c.recvq, &waiter[T]{t: t, sel: sel, idx: idx, rc: r})
}

//go:norace
func (r *RecvCase[T]) timeAt() (int64, bool) {
	if r.c.tk == nil && r.c.tm == nil {
		return 0, false
	}
	return r.c.timeReady()
}

//go:norace
func (s *SendCase[T]) isNil() bool { return s.c == nil }

//go:norace
func (s *SendCase[T]) try(w *World) bool { return s.c.trySend(w, s.val) }

//go:norace
func (s *SendCase[T]) enqueue(w *World, t *Task, sel *selState, idx int) {
	pushWaiter(&s.c.sendq, &waiter[T]{t: t, val: s.val, sel: sel, idx: idx})
}

//go:norace
func (s *SendCase[T]) timeAt() (int64, bool) { return 0, false }

// Select is what a select statement is rewritten to.  It returns the index of the case that proceeded,
// or -1 for default.
//
//go:norace
func Select(hasDefault bool, cases ...selCase) int {
	w := W
	if w == nil {
		panic("vsim: select on simulated channels outside a world")
	}
	t := w.cur
	if t.abort {
		return -1
	}
	w.syncPoint(-16)
	n := len(cases)
	for {
		// poll in a drawn order: which of several ready cases proceeds is the scheduler's choice
		start := 0
		if n > 1 {
			start = int(w.Draw(uint64(n)))
		}
		for k := 0; k < n; k++ {
			i := (start + k) % n
			if cases[i].isNil() {
				continue
			}
			if cases[i].try(w) {
				w.mix(-16, int64(i), int64(n))
				return i
			}
		}
		if hasDefault {
			return -1
		}
		sel := &selState{}
		var wakeAt int64 = -1
		for i := 0; i < n; i++ {
			if cases[i].isNil() {
				continue
			}
			cases[i].enqueue(w, t, sel, i)
			if at, live := cases[i].timeAt(); live && (wakeAt < 0 || at < wakeAt) {
				wakeAt = at
			}
		}
		if wakeAt >= 0 {
			w.arm(t, wakeAt-w.Vnow)
			t.state = stSleeping
		} else {
			t.state = stBlocked
		}
		w.yield(t, -16)
		if t.abort {
			return -1
		}
		if sel.fired {
			sel.fired = true // (stale registrations on other channels are skipped by popLive)
			return sel.idx
		}
		sel.fired = true // woken by the timer: withdraw the registrations and poll again
	}
}

// MakeChanInWorld creates a simulated channel regardless of whether a world is active yet (tests and
// harness code that set channels up before World.Run).
func MakeChanInWorld[T any](n int) *Chan[T] {
	c := &Chan[T]{capa: n}
	if n > 0 {
		c.buf = make([]T, n)
	}
	return c
}
