//go:build !race

package vsim

import "unsafe"

const RaceEnabled = false

func raceDisable()                      {}
func raceEnable()                       {}
func raceAcquire(p unsafe.Pointer)      {}
func raceRelease(p unsafe.Pointer)      {}
func raceReleaseMerge(p unsafe.Pointer) {}

// RaceErrors is the number of data races reported so far in this process.
func RaceErrors() int { return 0 }
