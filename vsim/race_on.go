//go:build race

package vsim

import (
	"runtime"
	"unsafe"
)

const RaceEnabled = true

func raceDisable()                      { runtime.RaceDisable() }
func raceEnable()                       { runtime.RaceEnable() }
func raceAcquire(p unsafe.Pointer)      { runtime.RaceAcquire(p) }
func raceRelease(p unsafe.Pointer)      { runtime.RaceRelease(p) }
func raceReleaseMerge(p unsafe.Pointer) { runtime.RaceReleaseMerge(p) }

// RaceErrors is the number of data races reported so far in this process.
func RaceErrors() int { return runtime.RaceErrors() }
