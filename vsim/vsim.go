// Package vsim is the deterministic simulator runtime the instrumented copy of
// regexp2 runs against (see /verif/DESIGN.md §2.2).  It owns who runs (a baton
// scheduler over real goroutines), when (virtual time advanced by executed
// statements, a timer heap), which pooled object a Get returns, and the
// blocking of mutexes.  Outside a World every entry point is a pass-through.
//
// Coding rule (DESIGN §2.3): simulator state is read and written only inside
// //go:norace functions, never through closures, maps, append/copy or library
// code, otherwise the race detector reports the simulator instead of regexp2.
package vsim

import (
	"fmt"
	"reflect"
	"runtime/debug"
	"sync"
	"time"
	"unsafe"
)

func stack() string { return string(debug.Stack()) }

func fmtKey(k any) string { return fmt.Sprintf("%T:%v", k, k) }

const (
	stRunnable = iota
	stRunning
	stSleeping
	stBlocked
	stDone
)

// Policies.
const (
	Adversarial = 0 // random choice at sync points + explicit pre-emptions; starvation capped by Quantum
	Fair        = 1 // round robin with quantum; timer-woken tasks run at their wake time
)

// Pool modes.
const (
	PoolRandom = 0 // arbitrary item, forced misses, drops (everything sync.Pool may do)
	PoolLIFO   = 1 // most recently put item, never misses, never drops
	PoolMiss   = 2 // always empty (pristine world)
	PoolFIFO   = 3 // oldest item
)

// Stop reasons.
const (
	StopNone      = 0
	StopDeadlock  = 1
	StopOverrun   = 2 // global step cap
	StopOpSteps   = 3 // a task exceeded its per-operation step limit
	StopOpVTime   = 4 // a task exceeded its per-operation virtual deadline
	StopWorldTime = 5 // world virtual-time limit (drain bound)
	StopRequested = 6 // harness asked for it
)

type Preempt struct {
	AfterSync int64 `json:"s"` // arm when the n-th sync event has happened (-1: absolute step)
	Delta     int64 `json:"d"` // steps after arming (or absolute global step)
}

type Config struct {
	Policy           int       `json:"policy"`
	Quantum          int64     `json:"quantum"`     // steps; Fair: slice length, Adversarial: starvation cap (0 = none)
	Jitter           int64     `json:"jitter"`      // max ns a timer wake-up is late
	SwitchProb       uint32    `json:"switch_prob"` // per 1024, at sync points (Adversarial)
	WakeRunProb      uint32    `json:"wake_prob"`   // per 1024, timer-woken task runs at once (Adversarial)
	Preempts         []Preempt `json:"preempts"`    // explicit pre-emption points
	MaxSteps         int64     `json:"max_steps"`   // global cap
	PoolMode         int       `json:"pool_mode"`
	MissProb         uint32    `json:"miss_prob"`               // per 1024: Get pretends the pool is empty
	DropProb         uint32    `json:"drop_prob"`               // per 1024: Put drops the item
	ScribbleProb     uint32    `json:"scribble_prob"`           // per 1024: a pooled slice is overwritten while it sits in the pool
	Alphabet         []rune    `json:"alphabet"`                // what scribbling writes
	StallProb        uint32    `json:"stall_prob"`              // per 1024: a Sleep of a spawned task oversleeps
	StallMax         int64     `json:"stall_max"`               // ns
	LastFaultStep    int64     `json:"last_fault_step"`         // no stall is injected after this global step (0 = never stop)
	SpawnCost        int64     `json:"spawn_cost"`              // step cost of tasks started through Go (0 = the parent's)
	SyncStallProb    uint32    `json:"sync_stall_prob"`         // per 1024: a task is descheduled for a while at a sync point
	SyncStallMax     int64     `json:"sync_stall_max"`          // ns
	SyncStallSpawned bool      `json:"sync_stall_spawned_only"` // only tasks started by the code under test are stalled
	Trace            bool      `json:"-"`
}

type Task struct {
	ID          int
	Name        string
	Site        int // spawn site (0 for harness clients)
	wake        chan struct{}
	state       int
	Cost        int64 // virtual ns per step
	Steps       int64
	abort       bool
	stepLimit   int64 // task-local step number at which the world is stopped (0 = none)
	vDeadline   int64 // virtual time at which the world is stopped while this task runs (0 = none)
	readyAt     int64 // global step at which it became runnable (oldest-first at quantum expiry)
	sleepAt     int64 // requested wake time of the pending Sleep
	lastSite    int   // site at which the task last gave up the baton
	interrupted bool  // Fair: pre-empted by a timer wake-up, resumes first with the rest of its quantum
	qRemain     int64
	stalled     bool   // sleeping because of an injected sync-point stall
	waitFrom    int64  // virtual time since when the task has been kept off the CPU involuntarily (-1: not waiting)
	armSeq      uint64 // sequence number of the timer the task is waiting for (a fired timer with another number is stale)
	condWait    bool   // parked in Cond.Wait
	wokeAt      int64
	MaxLate     int64 // largest lateness of a wake-up
	MaxBusy     int64 // largest virtual time between a wake-up and the next Sleep call
	Sleeps      int64
	Started     int64
	Exited      int64 // virtual time of exit, -1 while alive
	Panic       any
	PanicStack  string
}

type timer struct {
	at  int64
	seq uint64
	t   *Task
}

type Stats struct {
	Switches        int64 // baton hand-offs to a different task
	Yields          int64
	SyncEvents      int64
	PreemptsHit     int64
	QuantumHit      int64
	PoolGets        int64
	PoolHits        int64
	PoolForcedMiss  int64
	PoolEmptyMiss   int64
	PoolArbitrary   int64 // returned item was not the most recently put one
	PoolDups        int64 // same pointer present twice: duplicate preferred
	PoolPuts        int64
	PoolDrops       int64
	CleanupsAdded   int64 // runtime.AddCleanup registrations inside the world
	CleanupsRun     int64 // ... whose object was unreachable at a simulated GC point
	Scribbles       int64
	MutexLocks      int64
	MutexBlocks     int64
	Spawns          int64
	TimerFires      int64
	Jittered        int64
	Stalls          int64
	ClockJumps      int64 // idle jumps of virtual time to the next timer
	OverlapSwitches int64 // hand-offs while at least two client operations were in flight
	SyncStalls      int64 // tasks descheduled at a sync point (fault)
}

type World struct {
	rng        uint64
	Cfg        Config
	Tasks      []*Task
	ntasks     int
	cur        *Task
	Vnow       int64
	seq        uint64
	timers     []timer
	ntimers    int
	nextEv     int64
	nextPre    int64
	Steps      int64
	done       chan struct{}
	wg         sync.WaitGroup
	Hash       uint64 // every scheduling decision
	IHash      uint64 // (task, site) sequence at real context switches only: the interleaving
	Stop       int
	StopTask   int
	StopSite   int
	St         Stats
	preArmed   []int64 // absolute steps of armed pre-emptions
	npre       int
	preNext    int // next Cfg.Preempts entry waiting for its sync count
	qEnd       int64
	vLimit     int64 // world virtual-time limit (0 = none)
	pools      []*Pool
	npools     int
	cleanups   []cleanupRec // runtime.AddCleanup registrations made inside the world (cleanup.go)
	ncleanups  int
	cleanupSeq uint64
	epoch      uint64
	trace      []int64
	ntrace     int
	pairs      []uint64 // adjacent (site,site) pairs at context switches
	npairs     int
	lastSite   int
	userMax    int64
	finished   int
	inflight   int
	maxDesched int64 // longest time any task was kept off the CPU involuntarily (runnable but not chosen, or stalled)
}

var W *World
var epochCounter uint64

// Site tables, filled by the generated sites_gen.go of the instrumented copy.
var SiteFile []string
var SiteLine []int32
var SiteFunc []string
var SiteKind []string

var Epoch = time.Date(2000, 1, 1, 0, 0, 0, 0, time.UTC)

type abortSig struct{}

// IsAbort reports whether a recovered value is the simulator's own unwinding signal.
func IsAbort(r any) bool { _, ok := r.(abortSig); return ok }

//go:norace
func world() *World { return W }

//go:norace
func setWorld(w *World) { W = w }

//go:norace
func NewWorld(seed uint64, cfg Config) *World {
	epochCounter++
	w := &World{rng: seed*0x9E3779B97F4A7C15 + 0x1234567, Cfg: cfg, done: make(chan struct{}, 1), Hash: 1469598103934665603, IHash: 1469598103934665603, epoch: epochCounter}
	w.nextEv = 1 << 62
	w.nextPre = 1 << 62
	w.preArmed = make([]int64, len(cfg.Preempts)+1)
	for w.preNext < len(cfg.Preempts) && cfg.Preempts[w.preNext].AfterSync < 0 {
		w.preArmed[w.npre] = cfg.Preempts[w.preNext].Delta
		w.npre++
		w.preNext++
	}
	if w.Cfg.MaxSteps == 0 {
		w.Cfg.MaxSteps = 1 << 40
	}
	return w
}

// Draw returns a value in [0,n) from the world's PRNG (splitmix64).
//
//go:norace
func (w *World) Draw(n uint64) uint64 {
	w.rng += 0x9E3779B97F4A7C15
	z := w.rng
	z = (z ^ (z >> 30)) * 0xBF58476D1CE4E5B9
	z = (z ^ (z >> 27)) * 0x94D049BB133111EB
	z ^= z >> 31
	if n == 0 {
		return 0
	}
	return z % n
}

//go:norace
func (w *World) chance(per1024 uint32) bool {
	if per1024 == 0 {
		return false
	}
	return w.Draw(1024) < uint64(per1024)
}

//go:norace
func (w *World) mix(a, b, c int64) {
	h := w.Hash
	h = (h ^ uint64(a)) * 1099511628211
	h = (h ^ uint64(b)) * 1099511628211
	h = (h ^ uint64(c)) * 1099511628211
	w.Hash = h
	if w.Cfg.Trace {
		if w.ntrace+3 > len(w.trace) {
			n := make([]int64, 2*len(w.trace)+3*1024)
			for i := 0; i < w.ntrace; i++ {
				n[i] = w.trace[i]
			}
			w.trace = n
		}
		w.trace[w.ntrace], w.trace[w.ntrace+1], w.trace[w.ntrace+2] = a, b, c
		w.ntrace += 3
	}
}

// TraceLog returns the recorded (task, site, vnow) triples (Cfg.Trace only).
//
//go:norace
func (w *World) TraceLog() []int64 {
	out := make([]int64, w.ntrace)
	for i := 0; i < w.ntrace; i++ {
		out[i] = w.trace[i]
	}
	return out
}

// Pairs returns the adjacent (from-site,to-site) pairs seen at context switches.
//
//go:norace
func (w *World) Pairs() []uint64 {
	out := make([]uint64, w.npairs)
	for i := 0; i < w.npairs; i++ {
		out[i] = w.pairs[i]
	}
	return out
}

// ---- tasks ----

//go:norace
func (w *World) newTask(name string, site int, cost int64) *Task {
	if cost < 1 {
		cost = 1
	}
	t := &Task{ID: w.ntasks, Name: name, Site: site, wake: make(chan struct{}, 1), Cost: cost, Exited: -1, Started: w.Vnow, wokeAt: w.Vnow, readyAt: w.Steps, waitFrom: w.Vnow}
	if w.ntasks == len(w.Tasks) {
		n := make([]*Task, 2*len(w.Tasks)+8)
		for i := 0; i < w.ntasks; i++ {
			n[i] = w.Tasks[i]
		}
		w.Tasks = n
	}
	w.Tasks[w.ntasks] = t
	w.ntasks++
	return t
}

// NTasks returns the number of tasks created so far.
//
//go:norace
func (w *World) NTasks() int { return w.ntasks }

// TaskAt returns task i.
//
//go:norace
func (w *World) TaskAt(i int) *Task { return w.Tasks[i] }

// Spawn registers a client task (harness, before Run).
func (w *World) Spawn(name string, cost int64, f func()) *Task {
	t := w.newTask(name, 0, cost)
	w.wg.Add(1)
	go w.taskMain(t, f)
	return t
}

func (w *World) taskMain(t *Task, f func()) {
	defer w.wg.Done()
	parkFirst(t)
	defer w.taskExit(t)
	if !isAborted(t) {
		f()
	}
}

//go:norace
func parkFirst(t *Task) {
	raceDisable()
	<-t.wake
	raceEnable()
}

//go:norace
func isAborted(t *Task) bool { return t.abort }

func (w *World) taskExit(t *Task) {
	if r := recover(); r != nil {
		if !IsAbort(r) {
			notePanic(t, r, stack())
		}
	}
	w.finish(t)
}

//go:norace
func notePanic(t *Task, r any, st string) {
	t.Panic = r
	t.PanicStack = st
}

//go:norace
func (w *World) finish(t *Task) {
	t.state = stDone
	t.Exited = w.Vnow
	if b := w.Vnow - t.wokeAt; b > t.MaxBusy {
		t.MaxBusy = b // the last iteration (wake-up .. exit) counts as well
	}
	if t.abort {
		// being unwound by abortAll: hand the baton back to the driver
		raceDisable()
		w.done <- struct{}{}
		raceEnable()
		return
	}
	w.mix(int64(t.ID), -9, w.Vnow)
	w.resched(t, -9)
}

// Go is what a go statement is rewritten to.
//
//go:norace
func Go(site int, f func()) {
	w := W
	if w == nil {
		go f()
		return
	}
	if w.cur.abort {
		return
	}
	w.St.Spawns++
	c := w.cur.Cost
	if w.Cfg.SpawnCost > 0 {
		c = w.Cfg.SpawnCost
	}
	t := w.newTask("spawned", site, c)
	w.wg.Add(1)
	go w.taskMain(t, f)
	w.syncPoint(site)
}

// GoCall is what `go f(x, y)` is rewritten to: like the go statement it evaluates f and the arguments now
// and runs the call in a new task.
func GoCall(site int, f any, args ...any) {
	fv := reflect.ValueOf(f)
	ft := fv.Type()
	in := make([]reflect.Value, len(args))
	for i, a := range args {
		var pt reflect.Type
		switch {
		case ft.IsVariadic() && i >= ft.NumIn()-1:
			pt = ft.In(ft.NumIn() - 1).Elem()
		case i < ft.NumIn():
			pt = ft.In(i)
		}
		switch {
		case a == nil && pt != nil:
			in[i] = reflect.Zero(pt)
		case pt != nil && reflect.TypeOf(a) != pt && reflect.TypeOf(a).ConvertibleTo(pt) && pt.Kind() != reflect.Interface:
			in[i] = reflect.ValueOf(a).Convert(pt)
		default:
			in[i] = reflect.ValueOf(a)
		}
	}
	Go(site, func() { fv.Call(in) })
}

// Y is inserted before every statement of the code under test.
//
//go:norace
func Y(site int) {
	w := W
	if w == nil {
		return
	}
	t := w.cur
	t.Steps++
	w.Steps++
	w.Vnow += t.Cost
	if w.Vnow >= w.nextEv || w.Steps >= w.nextPre {
		w.slow(t, site)
	}
}

// Gosched is what runtime.Gosched is rewritten to.
//
//go:norace
func Gosched() {
	w := W
	if w == nil {
		return
	}
	t := w.cur
	if t.abort {
		return
	}
	t.state = stRunnable
	t.readyAt = w.Steps
	w.yield(t, -8)
}

//go:norace
func (w *World) stopNow(t *Task, reason, site int) {
	if w.Stop == StopNone {
		w.Stop = reason
		w.StopTask = t.ID
		w.StopSite = site
	}
	t.abort = true
	panic(abortSig{})
}

//go:norace
func (w *World) slow(t *Task, site int) {
	if t.abort {
		return
	}
	if w.Steps > w.Cfg.MaxSteps {
		w.stopNow(t, StopOverrun, site)
	}
	if t.stepLimit > 0 && t.Steps > t.stepLimit {
		w.stopNow(t, StopOpSteps, site)
	}
	if t.vDeadline > 0 && w.Vnow > t.vDeadline {
		w.stopNow(t, StopOpVTime, site)
	}
	if w.vLimit > 0 && w.Vnow > w.vLimit && w.liveSpawned() > 0 {
		w.stopNow(t, StopWorldTime, site)
	}
	// why are we here?
	timerDue := w.ntimers > 0 && w.timers[0].at <= w.Vnow
	preDue := false
	for i := 0; i < w.npre; i++ {
		if w.preArmed[i] <= w.Steps {
			// consume
			w.preArmed[i] = w.preArmed[w.npre-1]
			w.npre--
			i--
			preDue = true
		}
	}
	qDue := w.Cfg.Quantum > 0 && w.Steps >= w.qEnd
	if preDue {
		w.St.PreemptsHit++
	}
	if qDue {
		w.St.QuantumHit++
	}
	if !timerDue && !preDue && !qDue {
		w.setNext(t)
		return
	}
	t.state = stRunnable
	t.readyAt = w.Steps
	if timerDue && !preDue && !qDue && w.Cfg.Policy == Fair && w.Cfg.Quantum > 0 {
		// an interrupt, not the end of the slice: the task continues its quantum once the woken task blocks again
		t.interrupted = true
		t.qRemain = w.qEnd - w.Steps
	}
	kind := 0
	if preDue {
		kind |= 1
	}
	if qDue {
		kind |= 2
	}
	if timerDue {
		kind |= 4
	}
	w.yieldKind(t, site, kind)
}

// setNext recomputes the fast-path thresholds for the running task.
//
//go:norace
func (w *World) setNext(t *Task) {
	np := int64(1) << 62
	for i := 0; i < w.npre; i++ {
		if w.preArmed[i] < np {
			np = w.preArmed[i]
		}
	}
	if w.Cfg.Quantum > 0 && w.qEnd < np {
		np = w.qEnd
	}
	if t.stepLimit > 0 {
		if g := w.Steps + (t.stepLimit - t.Steps) + 1; g < np {
			np = g
		}
	}
	if g := w.Cfg.MaxSteps + 1; g < np {
		np = g
	}
	w.nextPre = np
	ne := int64(1) << 62
	if w.ntimers > 0 {
		ne = w.timers[0].at
	}
	if t.vDeadline > 0 && t.vDeadline+1 < ne {
		ne = t.vDeadline + 1
	}
	if w.vLimit > 0 && w.vLimit+1 < ne {
		ne = w.vLimit + 1
	}
	w.nextEv = ne
}

// syncPoint is called at every synchronisation operation of the code under test.
//
//go:norace
func (w *World) syncPoint(site int) {
	t := w.cur
	if t.abort {
		return
	}
	w.St.SyncEvents++
	for w.preNext < len(w.Cfg.Preempts) && w.Cfg.Preempts[w.preNext].AfterSync <= w.St.SyncEvents {
		w.preArmed[w.npre] = w.Steps + w.Cfg.Preempts[w.preNext].Delta
		w.npre++
		w.preNext++
		w.setNext(t)
	}
	if w.Cfg.SyncStallProb > 0 && site != -7 && (!w.Cfg.SyncStallSpawned || t.Site != 0) && (w.Cfg.LastFaultStep == 0 || w.Steps < w.Cfg.LastFaultStep) && w.chance(w.Cfg.SyncStallProb) {
		// fault: the OS deschedules this task right here for a while (a slow or stalled caller / clock goroutine)
		w.St.SyncStalls++
		d := 1 + int64(w.Draw(uint64(w.Cfg.SyncStallMax)+1))
		t.stalled = true
		t.armSeq = w.nextSeq()
		w.pushTimer(timer{at: w.Vnow + d, seq: t.armSeq, t: t})
		t.state = stSleeping
		w.yieldKind(t, site, 16)
		return
	}
	if w.Cfg.Policy == Adversarial && w.chance(w.Cfg.SwitchProb) {
		t.state = stRunnable
		t.readyAt = w.Steps
		w.yieldKind(t, site, 8)
	}
}

//go:norace
func (w *World) yield(t *Task, site int) { w.yieldKind(t, site, 0) }

//go:norace
func (w *World) yieldKind(t *Task, site int, kind int) {
	w.St.Yields++
	if t.state == stRunnable || t.stalled {
		t.waitFrom = w.Vnow // pre-empted, switched away from, or stalled: involuntary
	} else {
		t.waitFrom = -1 // sleeping or blocked: voluntary, until it is woken
	}
	w.mix(int64(t.ID), int64(site), w.Vnow)
	w.lastSite = site
	w.reschedKind(t, site, kind)
	if t.abort {
		panic(abortSig{})
	}
}

//go:norace
func (w *World) resched(t *Task, site int) { w.reschedKind(t, site, 0) }

// reschedKind is executed by the task that holds the baton: it picks the next task and
// hands the baton over (or keeps it).  Returns when t holds the baton again.
//
//go:norace
func (w *World) reschedKind(t *Task, site int, kind int) {
	next := w.pick(t, kind)
	if next == nil {
		// nothing can run: finished, deadlocked or stopped
		if t.state != stDone && w.Stop == StopNone {
			w.Stop = StopDeadlock
		}
		raceDisable()
		w.done <- struct{}{}
		if t.state != stDone {
			<-t.wake // abortAll will wake us with abort set
		}
		raceEnable()
		return
	}
	w.dispatch(next)
	if next == t {
		return
	}
	w.St.Switches++
	if w.inflight >= 2 {
		w.St.OverlapSwitches++
	}
	w.IHash = (w.IHash ^ uint64(t.ID)*1000003 ^ uint64(int64(site))) * 1099511628211
	t.lastSite = site
	if w.npairs < 512 {
		if w.npairs == len(w.pairs) {
			n := make([]uint64, 2*len(w.pairs)+64)
			for i := 0; i < w.npairs; i++ {
				n[i] = w.pairs[i]
			}
			w.pairs = n
		}
		w.pairs[w.npairs] = uint64(uint32(int32(site)))<<32 | uint64(uint32(int32(next.lastSite)))
		w.npairs++
	}
	raceDisable()
	next.wake <- struct{}{}
	if t.state != stDone {
		<-t.wake
	}
	raceEnable()
}

//go:norace
func (w *World) dispatch(t *Task) {
	w.cur = t
	t.state = stRunning
	if t.waitFrom >= 0 {
		if g := w.Vnow - t.waitFrom; g > w.maxDesched {
			w.maxDesched = g
		}
	}
	t.waitFrom = -1
	if w.Cfg.Quantum > 0 {
		w.qEnd = w.Steps + w.Cfg.Quantum
		if t.interrupted {
			t.interrupted = false
			if t.qRemain < 1 {
				t.qRemain = 1
			}
			w.qEnd = w.Steps + t.qRemain
		}
	}
	w.setNext(t)
}

// pick fires due timers and chooses the next task.  kind tells why the caller yielded.
//
//go:norace
func (w *World) pick(from *Task, kind int) *Task {
	if w.Stop != StopNone {
		return nil
	}
	for {
		var woken *Task
		for w.ntimers > 0 && w.timers[0].at <= w.Vnow {
			tm := w.popTimer()
			if tm.t.armSeq != tm.seq || tm.t.state != stSleeping {
				continue // cancelled: the task was woken by something else (a select whose channel case fired)
			}
			w.St.TimerFires++
			tm.t.state = stRunnable
			tm.t.readyAt = w.Steps
			if tm.t.stalled {
				// end of a sync-point stall: the task's busy interval (wake-up .. next Sleep) keeps running,
				// and so does the interval it has been off the CPU
				tm.t.stalled = false
			} else {
				tm.t.waitFrom = w.Vnow
				tm.t.wokeAt = w.Vnow
				if late := w.Vnow - tm.t.sleepAt; late > tm.t.MaxLate {
					tm.t.MaxLate = late
				}
			}
			if woken == nil {
				woken = tm.t
			}
		}
		if woken != nil && (w.Cfg.Policy == Fair || w.chance(w.Cfg.WakeRunProb)) {
			return woken
		}
		// collect runnable tasks
		n := 0
		var oldest, only *Task
		for i := 0; i < w.ntasks; i++ {
			x := w.Tasks[i]
			if x.state == stRunnable {
				n++
				only = x
				if oldest == nil || x.readyAt < oldest.readyAt {
					oldest = x
				}
			}
		}
		if n == 0 {
			if w.ntimers == 0 {
				return nil
			}
			if w.vLimit > 0 && w.timers[0].at > w.vLimit {
				if w.Stop == StopNone {
					w.Stop = StopWorldTime
					w.StopTask = -1
				}
				return nil
			}
			if w.timers[0].at > w.Vnow {
				w.Vnow = w.timers[0].at
				w.St.ClockJumps++
			}
			continue
		}
		if n == 1 {
			return only
		}
		if w.Cfg.Policy == Fair {
			for i := 0; i < w.ntasks; i++ {
				if x := w.Tasks[i]; x.state == stRunnable && x.interrupted {
					return x
				}
			}
		}
		if w.Cfg.Policy == Fair || kind&2 != 0 {
			// round robin / starvation cap: the task that has waited longest, not the yielder
			var best *Task
			for i := 0; i < w.ntasks; i++ {
				x := w.Tasks[i]
				if x.state == stRunnable && x != from && (best == nil || x.readyAt < best.readyAt) {
					best = x
				}
			}
			if best != nil {
				return best
			}
			return oldest
		}
		if kind&1 != 0 {
			// explicit pre-emption: somebody else
			k := int(w.Draw(uint64(n - 1)))
			for i := 0; i < w.ntasks; i++ {
				x := w.Tasks[i]
				if x.state == stRunnable && x != from {
					if k == 0 {
						return x
					}
					k--
				}
			}
		}
		k := int(w.Draw(uint64(n)))
		for i := 0; i < w.ntasks; i++ {
			x := w.Tasks[i]
			if x.state == stRunnable {
				if k == 0 {
					return x
				}
				k--
			}
		}
	}
}

// Run drives the world from the calling goroutine until every task has finished,
// or the world deadlocks or is stopped; the remaining tasks are then unwound.
func (w *World) Run() {
	w.begin()
	w.waitDone()
	w.abortAll()
	setWorld(nil)
	w.wg.Wait()
}

//go:norace
func (w *World) begin() {
	W = w
	first := w.pick(nil, 0)
	if first == nil {
		w.done <- struct{}{}
		return
	}
	w.dispatch(first)
	raceDisable()
	first.wake <- struct{}{}
	raceEnable()
}

//go:norace
func (w *World) waitDone() {
	raceDisable()
	<-w.done
	raceEnable()
}

//go:norace
func (w *World) abortAll() {
	for i := 0; i < w.ntasks; i++ {
		t := w.Tasks[i]
		if t.state == stDone {
			continue
		}
		t.abort = true
		w.cur = t
		raceDisable()
		t.wake <- struct{}{}
		<-w.done
		raceEnable()
	}
}

// ---- harness-side controls (called from inside tasks) ----

// VNow is the virtual time in ns.
//
//go:norace
func VNow() int64 {
	if W == nil {
		return 0
	}
	return W.Vnow
}

// MySteps is the number of steps the calling task has executed.
//
//go:norace
func MySteps() int64 {
	if W == nil {
		return 0
	}
	return W.cur.Steps
}

// GlobalSteps is the number of steps executed in the world.
//
//go:norace
func GlobalSteps() int64 {
	if W == nil {
		return 0
	}
	return W.Steps
}

// Me returns the calling task.
//
//go:norace
func Me() *Task {
	if W == nil {
		return nil
	}
	return W.cur
}

// SetOpLimits bounds the calling task's current operation: the world is stopped
// (StopOpSteps / StopOpVTime) when the task executes more than steps further
// steps or is still running at virtual time vdeadline.  Zero disables a limit.
//
//go:norace
func SetOpLimits(steps int64, vdeadline int64) {
	w := W
	if w == nil {
		return
	}
	t := w.cur
	if steps > 0 {
		t.stepLimit = t.Steps + steps
	} else {
		t.stepLimit = 0
	}
	t.vDeadline = vdeadline
	w.setNext(t)
}

// SetWorldVLimit stops the world (StopWorldTime) when virtual time passes v.
//
//go:norace
func SetWorldVLimit(v int64) {
	w := W
	if w == nil {
		return
	}
	w.vLimit = v
	if w.cur != nil {
		w.setNext(w.cur)
	}
}

// SetCost changes the calling task's step cost (slow / bursty callers).
//
//go:norace
func SetCost(c int64) {
	if W == nil {
		return
	}
	if c < 1 {
		c = 1
	}
	W.cur.Cost = c
}

// OpBoundary is a sync point between two client operations.
//
//go:norace
func OpBoundary() {
	w := W
	if w == nil {
		return
	}
	w.syncPoint(-7)
}

// RequestStop stops the world from inside a task (oracle failed: cut the run off).
//
//go:norace
func RequestStop() {
	w := W
	if w == nil {
		return
	}
	w.stopNow(w.cur, StopRequested, -7)
}

// LiveSpawned returns how many tasks started through Go are alive.
//
//go:norace
func LiveSpawned() int {
	w := W
	if w == nil {
		return 0
	}
	return w.liveSpawned()
}

//go:norace
func (w *World) liveSpawned() int {
	n := 0
	for i := 0; i < w.ntasks; i++ {
		if w.Tasks[i].Site != 0 && w.Tasks[i].state != stDone {
			n++
		}
	}
	return n
}

// SpawnedLag returns the largest (lateness, busy time) of any task started through Go.
//
//go:norace
func SpawnedLag() (late, busy int64) {
	w := W
	if w == nil {
		return 0, 0
	}
	for i := 0; i < w.ntasks; i++ {
		t := w.Tasks[i]
		if t.Site == 0 {
			continue
		}
		if t.MaxLate > late {
			late = t.MaxLate
		}
		b := t.MaxBusy
		// the iteration in progress counts too -- also while the task sits in an injected sync-point stall
		if (t.state != stSleeping || t.stalled) && t.state != stDone && w.Vnow-t.wokeAt > b {
			b = w.Vnow - t.wokeAt
		}
		if b > busy {
			busy = b
		}
	}
	return
}

// ---- time ----

//go:norace
func Now() time.Time {
	if W == nil {
		return time.Now()
	}
	return Epoch.Add(time.Duration(W.Vnow))
}

func Since(t time.Time) time.Duration { return Now().Sub(t) }
func Until(t time.Time) time.Duration { return t.Sub(Now()) }

//go:norace
func Sleep(d time.Duration) {
	w := W
	if w == nil {
		time.Sleep(d)
		return
	}
	t := w.cur
	if t.abort {
		return
	}
	w.St.SyncEvents++
	w.arm(t, int64(d))
	w.yield(t, -1)
}

//go:norace
func (w *World) arm(t *Task, d int64) {
	if d < 0 {
		d = 0
	}
	if b := w.Vnow - t.wokeAt; b > t.MaxBusy {
		t.MaxBusy = b
	}
	t.Sleeps++
	t.sleepAt = w.Vnow + d
	at := t.sleepAt
	if w.Cfg.Jitter > 0 {
		j := int64(w.Draw(uint64(w.Cfg.Jitter) + 1))
		if j > 0 {
			w.St.Jittered++
		}
		at += j
	}
	if t.Site != 0 && w.Cfg.StallProb > 0 && (w.Cfg.LastFaultStep == 0 || w.Steps < w.Cfg.LastFaultStep) && w.chance(w.Cfg.StallProb) {
		at += 1 + int64(w.Draw(uint64(w.Cfg.StallMax)))
		w.St.Stalls++
	}
	t.armSeq = w.nextSeq()
	w.pushTimer(timer{at: at, seq: t.armSeq, t: t})
	t.state = stSleeping
}

//go:norace
func (w *World) nextSeq() uint64 { w.seq++; return w.seq }

//go:norace
func (w *World) timerLess(i, j int) bool {
	a, b := &w.timers[i], &w.timers[j]
	return a.at < b.at || (a.at == b.at && a.seq < b.seq)
}

//go:norace
func (w *World) pushTimer(x timer) {
	if w.ntimers == len(w.timers) {
		n := make([]timer, 2*len(w.timers)+8)
		for i := 0; i < w.ntimers; i++ {
			n[i] = w.timers[i]
		}
		w.timers = n
	}
	i := w.ntimers
	w.timers[i] = x
	w.ntimers++
	for i > 0 {
		p := (i - 1) / 2
		if !w.timerLess(i, p) {
			break
		}
		w.timers[i], w.timers[p] = w.timers[p], w.timers[i]
		i = p
	}
}

//go:norace
func (w *World) popTimer() timer {
	n := w.ntimers - 1
	x := w.timers[0]
	w.timers[0] = w.timers[n]
	w.timers[n] = timer{}
	w.ntimers = n
	i := 0
	for {
		l, r, m := 2*i+1, 2*i+2, i
		if l < n && w.timerLess(l, m) {
			m = l
		}
		if r < n && w.timerLess(r, m) {
			m = r
		}
		if m == i {
			break
		}
		w.timers[i], w.timers[m] = w.timers[m], w.timers[i]
		i = m
	}
	return x
}

// ---- timers and tickers ----
//
// Ticker.C, Timer.C, After and Tick are simulated channels of time.Time (see chan.go) fed by the virtual clock.

// Ticker is what time.NewTicker returns in the instrumented copy.  It needs no task of its own: the next tick
// time is advanced by whoever receives.
type Ticker struct {
	C       *TimeChan
	period  int64
	next    int64
	stopped bool
	real    *time.Ticker // pass-through mode only
}

func NewTicker(d time.Duration) *Ticker {
	if d <= 0 {
		panic("non-positive interval for NewTicker")
	}
	tk := &Ticker{period: int64(d)}
	tk.C = &TimeChan{tk: tk}
	if !tickerInit(tk) {
		tk.real = time.NewTicker(d)
	}
	return tk
}

//go:norace
func tickerInit(tk *Ticker) bool {
	w := W
	if w == nil {
		return false
	}
	tk.next = w.Vnow + tk.period
	return true
}

func Tick(d time.Duration) *TimeChan { return NewTicker(d).C }

//go:norace
func (tk *Ticker) Stop() {
	tk.stopped = true
	if tk.real != nil {
		tk.real.Stop()
	}
}

//go:norace
func (tk *Ticker) Reset(d time.Duration) {
	if tk.real != nil {
		tk.real.Reset(d)
		return
	}
	tk.period = int64(d)
	tk.stopped = false
	if w := W; w != nil {
		tk.next = w.Vnow + tk.period
	}
}

// Timer is what time.NewTimer / time.AfterFunc return in the instrumented copy.
type Timer struct {
	C       *TimeChan
	at      int64
	stopped bool
	fired   bool
	real    *time.Timer // pass-through mode only
}

func NewTimer(d time.Duration) *Timer {
	tm := &Timer{}
	tm.C = &TimeChan{tm: tm}
	if !timerInit(tm, d) {
		tm.real = time.NewTimer(d)
	}
	return tm
}

//go:norace
func timerInit(tm *Timer, d time.Duration) bool {
	w := W
	if w == nil {
		return false
	}
	tm.at = w.Vnow + int64(d)
	return true
}

func After(d time.Duration) *TimeChan { return NewTimer(d).C }

//go:norace
func (t *Timer) Stop() bool {
	if t.real != nil {
		return t.real.Stop()
	}
	was := !t.stopped && !t.fired
	t.stopped = true
	return was
}

//go:norace
func (t *Timer) Reset(d time.Duration) bool {
	if t.real != nil {
		return t.real.Reset(d)
	}
	was := !t.stopped && !t.fired
	t.stopped, t.fired = false, false
	if w := W; w != nil {
		t.at = w.Vnow + int64(d)
	}
	return was
}

// AfterFunc is what time.AfterFunc is rewritten to: a task that sleeps, then runs f.
func AfterFunc(d time.Duration, f func()) *Timer {
	if world() == nil {
		return &Timer{real: time.AfterFunc(d, f)}
	}
	tm := &Timer{}
	Go(-6, func() {
		Sleep(d)
		if timerFire(tm) {
			f()
		}
	})
	return tm
}

//go:norace
func timerFire(t *Timer) bool {
	if t.stopped {
		return false
	}
	t.fired = true
	return true
}

// ---- Mutex ----

type Mutex struct {
	real    sync.Mutex // pass-through mode only
	owner   *Task
	held    bool
	waiters []*Task
	nwait   int
}

//go:norace
func (m *Mutex) Lock() {
	w := W
	if w == nil {
		m.real.Lock()
		return
	}
	t := w.cur
	if t.abort {
		return
	}
	w.St.MutexLocks++
	w.syncPoint(-2)
	blocked := false
	for m.held {
		if !blocked {
			blocked = true
			w.St.MutexBlocks++
		}
		m.addWaiter(t)
		t.state = stBlocked
		w.yield(t, -3)
	}
	m.held = true
	m.owner = t
	raceAcquire(unsafe.Pointer(m))
}

//go:norace
func (m *Mutex) TryLock() bool {
	w := W
	if w == nil {
		return m.real.TryLock()
	}
	if w.cur.abort {
		return true
	}
	w.syncPoint(-2)
	if m.held {
		return false
	}
	m.held = true
	m.owner = w.cur
	raceAcquire(unsafe.Pointer(m))
	return true
}

//go:norace
func (m *Mutex) addWaiter(t *Task) {
	if m.nwait == len(m.waiters) {
		n := make([]*Task, 2*len(m.waiters)+4)
		for i := 0; i < m.nwait; i++ {
			n[i] = m.waiters[i]
		}
		m.waiters = n
	}
	m.waiters[m.nwait] = t
	m.nwait++
}

//go:norace
func (m *Mutex) Unlock() {
	w := W
	if w == nil {
		m.real.Unlock()
		return
	}
	t := w.cur
	if t.abort {
		return
	}
	if !m.held {
		panic("sync: unlock of unlocked mutex")
	}
	raceRelease(unsafe.Pointer(m))
	m.held = false
	m.owner = nil
	for i := 0; i < m.nwait; i++ {
		x := m.waiters[i]
		if x.state == stBlocked {
			x.state = stRunnable
			x.readyAt = w.Steps
			x.waitFrom = w.Vnow
		}
		m.waiters[i] = nil
	}
	m.nwait = 0
	w.syncPoint(-4)
}

// RWMutex: writers exclude everybody, readers exclude writers.
type RWMutex struct {
	real    sync.RWMutex
	writer  bool
	readers int
	waiters []*Task
	nwait   int
	rsync   byte // address used for reader -> writer happens-before
}

//go:norace
func (m *RWMutex) addWaiter(t *Task) {
	if m.nwait == len(m.waiters) {
		n := make([]*Task, 2*len(m.waiters)+4)
		for i := 0; i < m.nwait; i++ {
			n[i] = m.waiters[i]
		}
		m.waiters = n
	}
	m.waiters[m.nwait] = t
	m.nwait++
}

//go:norace
func (m *RWMutex) wakeAll(w *World) {
	for i := 0; i < m.nwait; i++ {
		x := m.waiters[i]
		if x.state == stBlocked {
			x.state = stRunnable
			x.readyAt = w.Steps
			x.waitFrom = w.Vnow
		}
		m.waiters[i] = nil
	}
	m.nwait = 0
}

//go:norace
func (m *RWMutex) Lock() {
	w := W
	if w == nil {
		m.real.Lock()
		return
	}
	t := w.cur
	if t.abort {
		return
	}
	w.St.MutexLocks++
	w.syncPoint(-2)
	for m.writer || m.readers > 0 {
		m.addWaiter(t)
		t.state = stBlocked
		w.yield(t, -3)
	}
	m.writer = true
	raceAcquire(unsafe.Pointer(m))
	raceAcquire(unsafe.Pointer(&m.rsync))
}

//go:norace
func (m *RWMutex) Unlock() {
	w := W
	if w == nil {
		m.real.Unlock()
		return
	}
	if w.cur.abort {
		return
	}
	if !m.writer {
		panic("sync: Unlock of unlocked RWMutex")
	}
	raceRelease(unsafe.Pointer(m))
	m.writer = false
	m.wakeAll(w)
	w.syncPoint(-4)
}

//go:norace
func (m *RWMutex) RLock() {
	w := W
	if w == nil {
		m.real.RLock()
		return
	}
	t := w.cur
	if t.abort {
		return
	}
	w.St.MutexLocks++
	w.syncPoint(-2)
	for m.writer {
		m.addWaiter(t)
		t.state = stBlocked
		w.yield(t, -3)
	}
	m.readers++
	raceAcquire(unsafe.Pointer(m))
}

//go:norace
func (m *RWMutex) RUnlock() {
	w := W
	if w == nil {
		m.real.RUnlock()
		return
	}
	if w.cur.abort {
		return
	}
	if m.readers <= 0 {
		panic("sync: RUnlock of unlocked RWMutex")
	}
	raceReleaseMerge(unsafe.Pointer(&m.rsync))
	m.readers--
	if m.readers == 0 {
		m.wakeAll(w)
	}
	w.syncPoint(-4)
}

// Once and WaitGroup, for edited trees that introduce them.
type Once struct {
	m    Mutex
	done bool
}

func (o *Once) Do(f func()) {
	o.m.Lock()
	defer o.m.Unlock()
	if !onceDone(o) {
		defer onceSet(o)
		f()
	}
}

//go:norace
func onceDone(o *Once) bool { return o.done }

//go:norace
func onceSet(o *Once) { o.done = true }

type WaitGroup struct {
	real    sync.WaitGroup
	n       int
	waiters []*Task
	nwait   int
}

//go:norace
func (g *WaitGroup) Add(d int) {
	w := W
	if w == nil {
		g.real.Add(d)
		return
	}
	if w.cur.abort {
		return
	}
	if d < 0 {
		raceReleaseMerge(unsafe.Pointer(g))
	}
	g.n += d
	if g.n < 0 {
		panic("sync: negative WaitGroup counter")
	}
	if g.n == 0 {
		for i := 0; i < g.nwait; i++ {
			x := g.waiters[i]
			if x.state == stBlocked {
				x.state = stRunnable
				x.readyAt = w.Steps
				x.waitFrom = w.Vnow
			}
			g.waiters[i] = nil
		}
		g.nwait = 0
	}
	w.syncPoint(-4)
}

func (g *WaitGroup) Done() { g.Add(-1) }

//go:norace
func (g *WaitGroup) Wait() {
	w := W
	if w == nil {
		g.real.Wait()
		return
	}
	t := w.cur
	if t.abort {
		return
	}
	w.syncPoint(-2)
	for g.n > 0 {
		if g.nwait == len(g.waiters) {
			n := make([]*Task, 2*len(g.waiters)+4)
			for i := 0; i < g.nwait; i++ {
				n[i] = g.waiters[i]
			}
			g.waiters = n
		}
		g.waiters[g.nwait] = t
		g.nwait++
		t.state = stBlocked
		w.yield(t, -3)
	}
	raceAcquire(unsafe.Pointer(g))
}

// ---- Pool ----

type Pool struct {
	New   func() any
	real  sync.Pool // pass-through mode only (outside a world)
	items []any
	n     int
	epoch uint64
}

//go:norace
func (p *Pool) enter(w *World) {
	if p.epoch != w.epoch {
		for i := 0; i < p.n; i++ {
			p.items[i] = nil
		}
		p.n = 0
		p.epoch = w.epoch
		if w.npools == len(w.pools) {
			n := make([]*Pool, 2*len(w.pools)+16)
			for i := 0; i < w.npools; i++ {
				n[i] = w.pools[i]
			}
			w.pools = n
		}
		w.pools[w.npools] = p
		w.npools++
	}
}

// Get has sync.Pool's contract: an arbitrary pooled item, or New(), or nil.
//
//go:norace
func (p *Pool) Get() any {
	w := W
	var x any
	if w == nil {
		x = p.real.Get()
	} else if !w.cur.abort {
		p.enter(w)
		w.syncPoint(-5)
		x = p.take(w)
	}
	if x == nil && p.New != nil {
		return p.New()
	}
	return x
}

//go:norace
func (p *Pool) take(w *World) any {
	w.St.PoolGets++
	if p.n == 0 {
		w.St.PoolEmptyMiss++
		return nil
	}
	i := p.n - 1
	switch w.Cfg.PoolMode {
	case PoolMiss:
		w.St.PoolForcedMiss++
		return nil
	case PoolLIFO:
	case PoolFIFO:
		i = 0
	default:
		if w.chance(w.Cfg.MissProb) {
			w.St.PoolForcedMiss++
			return nil
		}
		// a pointer that was put twice reaches two holders: prefer it
		dup := -1
		for a := 0; a < p.n && dup < 0; a++ {
			for b := a + 1; b < p.n; b++ {
				if itemAddr(p.items[a]) == itemAddr(p.items[b]) {
					dup = a
					break
				}
			}
		}
		if dup >= 0 {
			i = dup
			w.St.PoolDups++
		} else {
			i = int(w.Draw(uint64(p.n)))
		}
	}
	if i != p.n-1 {
		w.St.PoolArbitrary++
	}
	x := p.items[i]
	for j := i; j < p.n-1; j++ {
		p.items[j] = p.items[j+1]
	}
	p.items[p.n-1] = nil
	p.n--
	w.St.PoolHits++
	w.mix(-5, int64(i), int64(p.n))
	raceAcquire(itemAddr(x))
	return x
}

//go:norace
func (p *Pool) Put(x any) {
	w := W
	if w == nil {
		if x != nil {
			p.real.Put(x)
		}
		return
	}
	if x == nil || w.cur.abort {
		return
	}
	p.enter(w)
	w.St.PoolPuts++
	if w.Cfg.PoolMode == PoolMiss {
		return
	}
	if w.Cfg.PoolMode == PoolRandom && w.chance(w.Cfg.DropProb) {
		w.St.PoolDrops++
		w.syncPoint(-5)
		return
	}
	raceReleaseMerge(itemAddr(x))
	if w.Cfg.ScribbleProb > 0 && w.chance(w.Cfg.ScribbleProb) {
		w.scribble(x)
	}
	if p.n == len(p.items) {
		n := make([]any, 2*len(p.items)+4)
		for i := 0; i < p.n; i++ {
			n[i] = p.items[i]
		}
		p.items = n
	}
	p.items[p.n] = x
	p.n++
	w.syncPoint(-5)
}

// scribble overwrites the whole capacity of a pooled slice with runes/bytes of the
// run's alphabet: what a foreign user of the process-wide pools does between a Put
// and the next Get.
//
//go:norace
func (w *World) scribble(x any) {
	na := len(w.Cfg.Alphabet)
	if na == 0 {
		return
	}
	switch b := x.(type) {
	case *[]rune:
		f := (*b)[:cap(*b)]
		k := int(w.Draw(uint64(na)))
		for i := range f {
			f[i] = w.Cfg.Alphabet[k]
			k++
			if k == na {
				k = 0
			}
		}
		w.St.Scribbles++
	case *[]byte:
		f := (*b)[:cap(*b)]
		k := int(w.Draw(uint64(na)))
		for i := range f {
			r := w.Cfg.Alphabet[k]
			if r < 0x80 {
				f[i] = byte(r)
			} else {
				f[i] = byte(0x80 | r&0x3f)
			}
			k++
			if k == na {
				k = 0
			}
		}
		w.St.Scribbles++
	}
}

// Items returns the pooled items (harness / overlay observers).
//
//go:norace
func (p *Pool) Items() []any {
	out := make([]any, p.n)
	for i := 0; i < p.n; i++ {
		out[i] = p.items[i]
	}
	return out
}

// PoolGC empties every pool touched in this world (what a GC cycle may do).
//
//go:norace
func PoolGC() {
	w := W
	if w == nil {
		return
	}
	for k := 0; k < w.npools; k++ {
		p := w.pools[k]
		for i := 0; i < p.n; i++ {
			p.items[i] = nil
		}
		w.St.PoolDrops += int64(p.n)
		p.n = 0
	}
	if w.ncleanups > 0 {
		runCleanups(w)
	}
}

//go:norace
func itemAddr(x any) unsafe.Pointer {
	return (*[2]unsafe.Pointer)(unsafe.Pointer(&x))[1]
}

// Barrier is a harness-side rendezvous of n client tasks (not used by the code under test).
type Barrier struct {
	N       int
	arrived int
	gen     int
	waiters []*Task
	nwait   int
}

//go:norace
func (b *Barrier) Wait() {
	w := W
	if w == nil {
		return
	}
	t := w.cur
	if t.abort {
		return
	}
	b.arrived++
	if b.arrived >= b.N {
		b.arrived = 0
		b.gen++
		for i := 0; i < b.nwait; i++ {
			x := b.waiters[i]
			if x.state == stBlocked {
				x.state = stRunnable
				x.readyAt = w.Steps
				x.waitFrom = w.Vnow
			}
			b.waiters[i] = nil
		}
		b.nwait = 0
		return
	}
	g := b.gen
	for g == b.gen {
		if b.nwait == len(b.waiters) {
			n := make([]*Task, 2*len(b.waiters)+4)
			for i := 0; i < b.nwait; i++ {
				n[i] = b.waiters[i]
			}
			b.waiters = n
		}
		b.waiters[b.nwait] = t
		b.nwait++
		t.state = stBlocked
		w.yield(t, -10)
	}
}

// StallCount is the number of stall faults injected so far.
//
//go:norace
func StallCount() int64 {
	if W == nil {
		return 0
	}
	return W.St.Stalls
}

// NoteMax keeps the maximum of the values passed by any task and returns it.
//
//go:norace
func NoteMax(v int64) int64 {
	w := W
	if w == nil {
		return v
	}
	if v > w.userMax {
		w.userMax = v
	}
	return w.userMax
}

// ClientFinished counts client tasks that reached the end of their script.
//
//go:norace
func ClientFinished() int {
	w := W
	if w == nil {
		return 0
	}
	w.finished++
	return w.finished
}

// Inflight adjusts the number of client operations in flight (harness bookkeeping for coverage).
//
//go:norace
func Inflight(d int) {
	if W != nil {
		W.inflight += d
	}
}

// PoolHitCount is the number of pool Gets that returned a pooled item so far.
//
//go:norace
func PoolHitCount() int64 {
	if W == nil {
		return 0
	}
	return W.St.PoolHits
}

// ---- Cond and Map, for edited trees that introduce them ----

// Cond mirrors sync.Cond on top of the simulated Mutex.
type Cond struct {
	L       sync.Locker
	waiters []*Task
	nwait   int
}

func NewCond(l sync.Locker) *Cond { return &Cond{L: l} }

func (c *Cond) Wait() {
	if world() == nil {
		panic("vsim.Cond used outside a simulated world")
	}
	c.enqueue()
	c.L.Unlock()
	c.block()
	c.L.Lock()
}

//go:norace
func (c *Cond) enqueue() {
	w := W
	t := w.cur
	if t.abort {
		return
	}
	if c.nwait == len(c.waiters) {
		n := make([]*Task, 2*len(c.waiters)+4)
		for i := 0; i < c.nwait; i++ {
			n[i] = c.waiters[i]
		}
		c.waiters = n
	}
	c.waiters[c.nwait] = t
	c.nwait++
	t.condWait = true
}

//go:norace
func (c *Cond) block() {
	w := W
	t := w.cur
	if t.abort {
		return
	}
	for t.condWait {
		t.state = stBlocked
		w.yield(t, -11)
	}
	raceAcquire(unsafe.Pointer(c))
}

//go:norace
func (c *Cond) wake(n int) {
	w := W
	if w == nil || w.cur.abort {
		return
	}
	raceReleaseMerge(unsafe.Pointer(c))
	k := 0
	for i := 0; i < c.nwait && k < n; i++ {
		x := c.waiters[i]
		if x != nil && x.condWait {
			x.condWait = false
			if x.state == stBlocked {
				x.state = stRunnable
				x.readyAt = w.Steps
				x.waitFrom = w.Vnow
			}
			c.waiters[i] = nil
			k++
		}
	}
	// compact
	j := 0
	for i := 0; i < c.nwait; i++ {
		if c.waiters[i] != nil {
			c.waiters[j] = c.waiters[i]
			j++
		}
	}
	for i := j; i < c.nwait; i++ {
		c.waiters[i] = nil
	}
	c.nwait = j
	w.syncPoint(-4)
}

func (c *Cond) Signal()    { c.wake(1) }
func (c *Cond) Broadcast() { c.wake(1 << 30) }

// Map is sync.Map with a sync point at every operation and a deterministic Range order.
// The real sync.Map underneath is never contended (one task runs at a time) and gives the
// race detector the edges the real type gives.
type Map struct{ m sync.Map }

//go:norace
func mapSync() {
	if w := W; w != nil && !w.cur.abort {
		w.syncPoint(-12)
	}
}

func (m *Map) Load(k any) (any, bool)           { mapSync(); return m.m.Load(k) }
func (m *Map) Store(k, v any)                   { mapSync(); m.m.Store(k, v) }
func (m *Map) LoadOrStore(k, v any) (any, bool) { mapSync(); return m.m.LoadOrStore(k, v) }
func (m *Map) LoadAndDelete(k any) (any, bool)  { mapSync(); return m.m.LoadAndDelete(k) }
func (m *Map) Delete(k any)                     { mapSync(); m.m.Delete(k) }
func (m *Map) Swap(k, v any) (any, bool)        { mapSync(); return m.m.Swap(k, v) }
func (m *Map) CompareAndSwap(k, o, n any) bool  { mapSync(); return m.m.CompareAndSwap(k, o, n) }
func (m *Map) CompareAndDelete(k, o any) bool   { mapSync(); return m.m.CompareAndDelete(k, o) }
func (m *Map) Clear()                           { mapSync(); m.m.Clear() }

// Range visits the entries in the order of their keys' printed form (sync.Map's own order is random).
func (m *Map) Range(f func(k, v any) bool) {
	mapSync()
	type kv struct {
		s    string
		k, v any
	}
	var all []kv
	m.m.Range(func(k, v any) bool {
		all = append(all, kv{fmtKey(k), k, v})
		return true
	})
	for i := 1; i < len(all); i++ {
		for j := i; j > 0 && all[j].s < all[j-1].s; j-- {
			all[j], all[j-1] = all[j-1], all[j]
		}
	}
	for _, e := range all {
		if !f(e.k, e.v) {
			return
		}
	}
}

// MaxDesched is the longest time any task has been kept off the CPU involuntarily so far: runnable but not
// chosen by the scheduler, or held by an injected stall.  (Timing oracles subtract it: code that reads a
// clock another task was about to advance sees a value that much older.)
//
//go:norace
func MaxDesched() int64 {
	if W == nil {
		return 0
	}
	return W.maxDesched
}
