package vsim

import (
	"runtime"
	"weak"
)

// Collector-driven callbacks (runtime.AddCleanup) under the simulator's control.
//
// The real collector decides when a cleanup runs, on a goroutine of its own: a source of nondeterminism.
// Inside a world a registration is therefore kept in a table with a weak pointer to the object, and the
// simulated "GC cycle" (PoolGC, issued by the workload as an operation) runs a real, synchronous
// runtime.GC(), looks which objects have become unreachable and runs their cleanups in the current task,
// at that point of the schedule.  That is one of the schedules the real runtime may produce (the cleanup
// goroutine running at once), chosen deterministically.  Outside a world the real runtime.AddCleanup is used.

type cleanupRec struct {
	alive func() bool
	run   func()
	used  bool
	id    uint64
}

const maxCleanups = 8192

// Cleanup mirrors runtime.Cleanup.
type Cleanup struct {
	real runtime.Cleanup
	w    *World
	id   uint64
}

//go:norace
func AddCleanup[T, S any](ptr *T, fn func(S), arg S) Cleanup {
	w := W
	if w == nil {
		return Cleanup{real: runtime.AddCleanup(ptr, fn, arg)}
	}
	if w.cleanups == nil {
		w.cleanups = make([]cleanupRec, maxCleanups)
	}
	if w.ncleanups == maxCleanups {
		runCleanups(w) // table full: a collection happens here
		if w.ncleanups == maxCleanups {
			panic("vsim: too many live runtime.AddCleanup registrations")
		}
	}
	wp := weak.Make(ptr)
	i := w.ncleanups
	w.cleanupSeq++
	w.cleanups[i] = cleanupRec{alive: func() bool { return wp.Value() != nil }, run: func() { fn(arg) }, used: true, id: w.cleanupSeq}
	w.ncleanups++
	w.St.CleanupsAdded++
	return Cleanup{w: w, id: w.cleanupSeq}
}

//go:norace
func (c Cleanup) Stop() {
	if c.w == nil {
		c.real.Stop()
		return
	}
	if W == c.w {
		for i := 0; i < c.w.ncleanups; i++ {
			if c.w.cleanups[i].id == c.id {
				c.w.cleanups[i].used = false
			}
		}
	}
}

//go:norace
func runCleanups(w *World) {
	runtime.GC()
	n := w.ncleanups
	// first decide (one consistent view of reachability), then run: a cleanup may register new ones
	for i := 0; i < n; i++ {
		r := &w.cleanups[i]
		if r.used && !r.alive() {
			r.used = false
			run := r.run
			r.run, r.alive = nil, nil
			w.St.CleanupsRun++
			run()
		}
	}
	// compact
	k := 0
	for i := 0; i < w.ncleanups; i++ {
		if w.cleanups[i].used {
			if k != i {
				w.cleanups[k] = w.cleanups[i]
				w.cleanups[i] = cleanupRec{}
			}
			k++
		} else {
			w.cleanups[i] = cleanupRec{}
		}
	}
	w.ncleanups = k
}
