package vsim

import (
	"fmt"
	"testing"
	"time"
)

// Tests of the simulator runtime itself (run by ./check selftest inside the scratch copy).

func runWorld(seed uint64, cfg Config, tasks ...func()) *World {
	w := NewWorld(seed, cfg)
	for i, f := range tasks {
		w.Spawn(fmt.Sprintf("t%d", i), 100, f)
	}
	w.Run()
	return w
}

func TestMutexExcludesAndDeterministic(t *testing.T) {
	var hashes []uint64
	for rep := 0; rep < 3; rep++ {
		var mu Mutex
		counter, maxIn, in := 0, 0, 0
		body := func() {
			for i := 0; i < 50; i++ {
				mu.Lock()
				in++
				if in > maxIn {
					maxIn = in
				}
				Y(1)
				counter++
				Y(2)
				in--
				mu.Unlock()
				Y(3)
			}
		}
		w := runWorld(7, Config{Policy: Adversarial, SwitchProb: 400, Quantum: 50}, body, body, body)
		if counter != 150 || maxIn != 1 || w.Stop != StopNone {
			t.Fatalf("counter=%d maxIn=%d stop=%d", counter, maxIn, w.Stop)
		}
		hashes = append(hashes, w.Hash)
	}
	if hashes[0] != hashes[1] || hashes[1] != hashes[2] {
		t.Fatalf("same seed, different schedules: %x", hashes)
	}
}

func TestSleepAdvancesVirtualTime(t *testing.T) {
	var woke int64
	start := time.Now()
	w := runWorld(1, Config{Policy: Fair, Quantum: 10}, func() {
		Sleep(time.Hour)
		woke = VNow()
	})
	if woke < int64(time.Hour) || woke > int64(time.Hour)+1000 || w.St.ClockJumps == 0 {
		t.Fatalf("woke at %d, jumps %d", woke, w.St.ClockJumps)
	}
	if time.Since(start) > 5*time.Second {
		t.Fatal("a virtual hour took real time")
	}
}

func TestDeadlockDetected(t *testing.T) {
	var a, b Mutex
	w := runWorld(3, Config{Policy: Fair, Quantum: 1},
		func() {
			a.Lock()
			Y(1)
			Y(1)
			b.Lock()
			b.Unlock()
			a.Unlock()
		},
		func() {
			b.Lock()
			Y(1)
			Y(1)
			a.Lock()
			a.Unlock()
			b.Unlock()
		})
	if w.Stop != StopDeadlock {
		t.Fatalf("stop=%d, want deadlock", w.Stop)
	}
}

func TestCondProducerConsumer(t *testing.T) {
	var mu Mutex
	c := NewCond(&mu)
	queue, got := 0, 0
	consumer := func() {
		for i := 0; i < 20; i++ {
			mu.Lock()
			for queue == 0 {
				c.Wait()
			}
			queue--
			got++
			mu.Unlock()
			Y(1)
		}
	}
	producer := func() {
		for i := 0; i < 40; i++ {
			mu.Lock()
			queue++
			mu.Unlock()
			c.Signal()
			Y(2)
		}
	}
	w := runWorld(5, Config{Policy: Adversarial, SwitchProb: 300, Quantum: 30}, consumer, consumer, producer)
	if got != 40 || w.Stop != StopNone {
		t.Fatalf("got=%d stop=%d", got, w.Stop)
	}
}

func TestMapRangeOrderIsDeterministic(t *testing.T) {
	var first string
	for rep := 0; rep < 20; rep++ {
		var m Map
		for i := 0; i < 30; i++ {
			m.Store(fmt.Sprintf("k%02d", (i*7)%30), i)
		}
		s := ""
		m.Range(func(k, v any) bool { s += k.(string); return true })
		if rep == 0 {
			first = s
		} else if s != first {
			t.Fatalf("Range order differs between runs")
		}
	}
}

func TestPoolContract(t *testing.T) {
	p := &Pool{New: func() any { return new(int) }}
	hits := 0
	w := runWorld(9, Config{Policy: Fair, Quantum: 100, PoolMode: PoolRandom, MissProb: 300, DropProb: 200}, func() {
		seen := map[*int]bool{}
		for i := 0; i < 200; i++ {
			x := p.Get().(*int)
			if seen[x] {
				hits++
			}
			seen[x] = true
			p.Put(x)
		}
	})
	if hits == 0 || w.St.PoolForcedMiss == 0 || w.St.PoolDrops == 0 {
		t.Fatalf("hits=%d forcedMiss=%d drops=%d", hits, w.St.PoolForcedMiss, w.St.PoolDrops)
	}
}

func TestStepLimitStopsWorld(t *testing.T) {
	w := runWorld(2, Config{Policy: Fair, Quantum: 10}, func() {
		SetOpLimits(100, 0)
		for {
			Y(1)
		}
	})
	if w.Stop != StopOpSteps {
		t.Fatalf("stop=%d", w.Stop)
	}
}

func TestSyncStallIsInjected(t *testing.T) {
	var mu Mutex
	w := runWorld(4, Config{Policy: Fair, Quantum: 10, SyncStallProb: 512, SyncStallMax: 1000000}, func() {
		for i := 0; i < 50; i++ {
			mu.Lock()
			Y(1)
			mu.Unlock()
		}
	})
	if w.St.SyncStalls == 0 || w.Vnow < 1000000 || w.Stop != StopNone {
		t.Fatalf("stalls=%d vnow=%d stop=%d", w.St.SyncStalls, w.Vnow, w.Stop)
	}
}

func TestTickerAndTimer(t *testing.T) {
	var ticks []int64
	var fired int64
	w := runWorld(3, Config{Policy: Fair, Quantum: 10}, func() {
		tk := NewTicker(10 * time.Millisecond)
		defer tk.Stop()
		for i := 0; i < 5; i++ {
			tk.C.Recv()
			ticks = append(ticks, VNow())
			if i == 1 {
				Sleep(25 * time.Millisecond) // a slow receiver: one tick is buffered, later ones are dropped
			}
		}
		tm := NewTimer(time.Second)
		tm.C.Recv()
		fired = VNow()
	})
	if w.Stop != StopNone || len(ticks) != 5 {
		t.Fatalf("stop=%d ticks=%v", w.Stop, ticks)
	}
	ms := int64(time.Millisecond)
	want := []int64{10 * ms, 20 * ms, 45 * ms, 50 * ms, 60 * ms}
	for i := range want {
		if ticks[i] < want[i] || ticks[i] > want[i]+ms {
			t.Fatalf("tick %d at %d, want about %d (%v)", i, ticks[i], want[i], ticks)
		}
	}
	if fired < ticks[4]+int64(time.Second) || fired > ticks[4]+int64(time.Second)+ms {
		t.Fatalf("timer fired at %d", fired)
	}
}

func TestGoCallEvaluatesArgumentsAtTheGoStatement(t *testing.T) {
	var got []int
	var mu Mutex
	add := func(v int, more ...int64) {
		mu.Lock()
		got = append(got, v+len(more))
		mu.Unlock()
	}
	w := runWorld(5, Config{Policy: Fair, Quantum: 5}, func() {
		for i := 0; i < 3; i++ {
			x := i * 10
			GoCall(-20, add, x, 7, 8) // untyped constants reach a variadic ...int64 parameter
			x = 999                   // must not be seen by the new task
			_ = x
			Y(1)
		}
	})
	if w.Stop != StopNone || len(got) != 3 {
		t.Fatalf("stop=%d got=%v", w.Stop, got)
	}
	sum := 0
	for _, v := range got {
		sum += v
	}
	if sum != 0+10+20+3*2 {
		t.Fatalf("got %v", got)
	}
}

func TestChannels(t *testing.T) {
	// unbuffered rendezvous, buffered queue, close, select with a timer and with default
	unbuf := MakeChanInWorld[int](0)
	buf := MakeChanInWorld[int](2)
	done := MakeChanInWorld[struct{}](0)
	var got []int
	var order []string
	var omu Mutex
	note := func(s string) {
		omu.Lock()
		order = append(order, s)
		omu.Unlock()
	}
	w := runWorld(11, Config{Policy: Adversarial, SwitchProb: 300, Quantum: 40},
		func() { // producer
			for i := 0; i < 5; i++ {
				unbuf.Send(i)
				Y(1)
			}
			Close(unbuf)
			buf.Send(100)
			buf.Send(200)
			note("buffered-sent")
			buf.Send(300) // blocks until the consumer takes one
			note("third-sent")
			Close(done)
		},
		func() { // consumer
			for {
				v, ok := unbuf.Recv2()
				if !ok {
					break
				}
				got = append(got, v)
			}
			Sleep(time.Millisecond)
			note("consumer-woke")
			got = append(got, buf.Recv(), buf.Recv(), buf.Recv())
			// select: nothing ready, default
			if i := Select(true, OnRecv(buf)); i != -1 {
				t.Errorf("select default: got %d", i)
			}
			// select: timer vs closed channel
			tm := NewTimer(time.Hour)
			c0, c1 := OnRecv(tm.C), OnRecv(done)
			if i := Select(false, c0, c1); i != 1 {
				t.Errorf("select: got case %d, want the closed channel", i)
			}
			// select: only a timer
			t0 := VNow()
			c2 := OnRecv(After(5 * time.Millisecond))
			if i := Select(false, c2); i != 0 || VNow()-t0 < int64(5*time.Millisecond) {
				t.Errorf("select timer: case %d after %d ns", i, VNow()-t0)
			}
		})
	if w.Stop != StopNone {
		t.Fatalf("stop=%d", w.Stop)
	}
	want := []int{0, 1, 2, 3, 4, 100, 200, 300}
	if fmt.Sprint(got) != fmt.Sprint(want) {
		t.Fatalf("got %v want %v", got, want)
	}
	if fmt.Sprint(order) != "[buffered-sent consumer-woke third-sent]" {
		t.Fatalf("order %v", order)
	}
}

func TestSelectSendAndStaleTimer(t *testing.T) {
	c := MakeChanInWorld[int](0)
	var recv int
	var slept int64
	w := runWorld(12, Config{Policy: Fair, Quantum: 7},
		func() {
			// a select that waits for a timer and a send; the receiver comes first, the timer must be cancelled
			tm := NewTimer(50 * time.Millisecond)
			if i := Select(false, OnRecv(tm.C), OnSend(c, 42)); i != 1 {
				t.Errorf("select: case %d", i)
			}
			t0 := VNow()
			Sleep(200 * time.Millisecond) // must not be cut short by the cancelled 50 ms timer
			slept = VNow() - t0
		},
		func() {
			Sleep(10 * time.Millisecond)
			recv = c.Recv()
		})
	if w.Stop != StopNone || recv != 42 || slept < int64(200*time.Millisecond) {
		t.Fatalf("stop=%d recv=%d slept=%d", w.Stop, recv, slept)
	}
}

type cleanupObj struct{ buf []int }

func TestAddCleanupRunsAtSimulatedGC(t *testing.T) {
	w := NewWorld(5, Config{Policy: Fair, Quantum: 10, MaxSteps: 1_000_000})
	ran := 0
	var keepAlive *cleanupObj
	w.Spawn("t", 1, func() {
		a := &cleanupObj{buf: make([]int, 8)}
		b := &cleanupObj{buf: make([]int, 8)}
		AddCleanup(a, func(k int) { ran += k }, 1)
		AddCleanup(b, func(k int) { ran += k }, 10)
		keepAlive = b
		a = nil
		Y(1)
		PoolGC() // a is unreachable, b is not
		if ran != 1 {
			t.Errorf("after first GC point: ran=%d, want 1", ran)
		}
		keepAlive = nil
		b = nil
		Y(1)
		PoolGC()
		if ran != 11 {
			t.Errorf("after second GC point: ran=%d, want 11", ran)
		}
	})
	w.Run()
	_ = keepAlive
	if w.St.CleanupsAdded != 2 || w.St.CleanupsRun != 2 {
		t.Errorf("stats: added %d run %d", w.St.CleanupsAdded, w.St.CleanupsRun)
	}
}
