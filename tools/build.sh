#!/bin/bash
# usage: build.sh <scratch dir> [plain|race|both]   (SRC=/repo by default)
# Builds the instrumented scratch copy of $SRC and the harness binaries into <scratch>/bin.
# Exit status 2 on any build trouble.
set -u
SCR=$1; FLAV=${2:-plain}
SRC=${SRC:-/repo}
V=$(cd "$(dirname "$0")/.." && pwd)
export GOFLAGS=-mod=mod GOPROXY=off GOSUMDB=off GOTOOLCHAIN=local GOWORK=off
GO=${GO:-go1.26.8}
mkdir -p "$SCR/repo" "$SCR/bin" || exit 2
rsync -a --delete --include='*/' --include='*.go' --include='go.mod' --include='go.sum' \
  --exclude='testdata/***' --exclude='.git/***' --exclude='*' "$SRC"/ "$SCR/repo"/ || exit 2
find "$SCR/repo" -name '*_test.go' -delete
mkdir -p "$SCR/repo/vsim" && cp $V/vsim/*.go "$SCR/repo/vsim/" || exit 2
cp $V/overlay/*.go "$SCR/repo/" || exit 2
(cd $V/tools/instrument && $GO build -o "$SCR/bin/instrument" .) || exit 2
"$SCR/bin/instrument" "$SCR/repo" || exit 2
rm -rf "$SCR/harness" && mkdir -p "$SCR/harness" && cp $V/harness/*.go "$SCR/harness/" || exit 2
MOD=$(awk '/^module /{print $2}' "$SCR/repo/go.mod")
cat > "$SCR/harness/go.mod" <<EOM
module verif/harness

go 1.25

require $MOD v2.0.0
replace $MOD => ../repo
EOM
cd "$SCR/harness" || exit 2
if [ "$FLAV" = plain ] || [ "$FLAV" = both ]; then
  $GO build -tags verif -o "$SCR/bin/h.plain" . || exit 2
fi
if [ "$FLAV" = race ] || [ "$FLAV" = both ]; then
  $GO build -race -tags verif -o "$SCR/bin/h.race" . || exit 2
fi
exit 0
