#!/bin/bash
# usage: try_seeded.sh <dir with patch.diff + demo> <property> [demo-target-relative-dir] [demo run regex]
# Verifies a breaking change in a scratch worktree (never in /repo): applies, suite passes, demo fails with / passes
# without, then runs the property's quick check against the patched worktree.  Prints a summary; cleans up.
set -u
D=$1; PROP=$2; DEMODIR=${3:-.}; RUN=${4:-Demo}
export GOFLAGS=-mod=mod GOPROXY=off
W=$(mktemp -d -t regexp2-seeded-XXXXXX)
trap 'git -C /repo worktree remove --force "$W/wt" >/dev/null 2>&1; rm -rf "$W"' EXIT
git -C /repo worktree add -q --detach "$W/wt" HEAD || exit 2
demo=$(ls "$D"/demo*_test.go 2>/dev/null | head -1)
echo "== demo on the original code (must pass)"
cp "$demo" "$W/wt/$DEMODIR/" && (cd "$W/wt/$DEMODIR" && go test -vet=off -count=1 -run "$RUN" . 2>&1 | tail -3)
echo "== apply patch"
git -C "$W/wt" apply "$D/patch.diff" || { echo "PATCH DOES NOT APPLY"; exit 2; }
echo "== demo with the change (must fail)"
(cd "$W/wt/$DEMODIR" && go test -vet=off -count=1 -run "$RUN" . 2>&1 | tail -5)
rm -f "$W/wt/$DEMODIR/$(basename "$demo")"
echo "== repository suite with the change (must pass)"
(cd "$W/wt" && go test -vet=off -count=1 ./... 2>&1 | tail -6)
echo "== ./check $PROP quick against the patched tree"
mkdir -p "$W/out"
(cd /verif && REPO="$W/wt" VERIF_EVIDENCE_DIR="$W/out" VERIF_REPLAY_DIR="$W/out" ./check $PROP quick > "$W/check.log" 2>&1; echo "check exit=$?" >> "$W/check.log")
grep -v "^build\|^VERIF_SEED" "$W/check.log" | cut -c1-700 | tail -12
if [ -n "${KEEP_REPLAY:-}" ]; then cp "$W"/out/*-*.json "$KEEP_REPLAY"/ 2>/dev/null; fi
